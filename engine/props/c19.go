package props

import (
	"bytes"
	"fmt"
	"os"
	"path/filepath"
	"sort"
	"strings"

	"github.com/ipfs/go-cid"
	"github.com/multiformats/go-multihash"

	"verif/drv"
	"verif/kit"
	"verif/model"
	"verif/refcar"
)

type C19Case struct {
	Roots string   `json:"roots"`
	Seq   []string `json:"seq"`
	Cont  string   `json:"cont"` // v1 v2 v2pad v2noidx dag
	Cmd   string   `json:"cmd"`
	Arg   string   `json:"arg,omitempty"`
}

var c19Cmds = []string{
	"index:mh", "index:sorted", "index:none", "index:v1", "index-create:mh", "index-create:sorted", "detach", "detach-list",
	"filter", "filter:inverse", "filter:v1", "filter:append", "filter:all", "filter:none",
	"get-block", "list", "root", "concat:v1:1", "concat:v1:2", "concat:v1:3", "concat:v2:2", "inspect",
}

func cidStr(raw []byte) string {
	c, err := cid.Cast(raw)
	if err != nil {
		panic(err)
	}
	return c.String()
}

// c19Validate: every produced archive is accepted by car inspect --full and, when its
// roots are among its blocks, by car verify.
func c19Validate(x *kit.Ctx, work, file, tag string) {
	b, err := os.ReadFile(filepath.Join(work, file))
	if err != nil {
		x.Fail("c19:no-output:"+tag, "command produced no output file %s", file)
		return
	}
	fl, derr := refcar.DecodeFile(b, true)
	r := drv.Car(work, nil, "inspect", "--full", file)
	x.Eval(1)
	if r.Exit != 0 {
		msg := string(r.Stderr)
		if derr == nil && fl.Version == 1 && strings.Contains(msg, "unexpected data after EOF: 1") {
			// call-site specific: lib.InspectCar's trailing-data probe reads the file's untouched
			// offset 0 after Inspect went through ReadAt; every CARv1 trips it
			x.Fail("c19:inspect-full-v1:trailing-data-probe", "car inspect --full rejects a valid CARv1 output: %s", clipS(msg, 200))
			// keep the rest of the oracle: plain inspect must accept
			if r2 := drv.Car(work, nil, "inspect", file); r2.Exit != 0 {
				x.Fail("c19:inspect-rejects:"+tag, "car inspect rejects the output: %s", clipS(string(r2.Stderr), 300))
			}
		} else {
			x.Fail("c19:inspect-full-rejects:"+tag, "car inspect --full rejects the output (reference decode: %v): %s", derr, clipS(msg, 300))
		}
	}
	if derr != nil {
		x.Fail("c19:output-malformed:"+tag, "output is not a well-formed archive: %v", derr)
		return
	}
	roots := fl.Payload.Header.Roots
	if len(roots) == 0 {
		return
	}
	for _, rt := range roots {
		found := false
		for _, s := range fl.Payload.Sections {
			if bytes.Equal(s.Cid, rt) {
				found = true
			}
		}
		if !found {
			return
		}
	}
	v := drv.Car(work, nil, "verify", file)
	x.Eval(1)
	if v.Exit != 0 {
		x.Fail("c19:verify-rejects:"+tag, "car verify rejects an output whose roots are all stored: %s", clipS(string(v.Stderr), 300))
	}
}

func c19Blocks(fl *refcar.File) []refcar.Block {
	var out []refcar.Block
	for _, s := range fl.Payload.Sections {
		out = append(out, refcar.Block{Cid: s.Cid, Data: s.Data})
	}
	return out
}

func runC19(c any, x *kit.Ctx) {
	cs := c.(C19Case)
	work := filepath.Join(x.Dir, "c19")
	os.RemoveAll(work)
	os.MkdirAll(work, 0o755)
	defer os.RemoveAll(work)
	_, rootRaws, _ := kit.Roots(cs.Roots)
	blks := kit.Bs(cs.Seq)
	var rb []refcar.Block
	for _, b := range blks {
		rb = append(rb, b.Ref())
	}
	payload := refcar.EncodeV1(rootRaws, false, rb)
	pl, _ := refcar.DecodePayload(payload, false, true)
	var in []byte
	switch cs.Cont {
	case "v1":
		in = payload
	case "v2":
		in = refcar.EncodeV2(payload, 0, 0, refcar.EncodeIndex(refcar.CodecMhIndexSorted, refcar.RecordsOf(pl, false)), false)
	case "v2pad":
		in = refcar.EncodeV2(payload, 3, 2, refcar.EncodeIndex(refcar.CodecIndexSorted, refcar.RecordsOf(pl, false)), false)
	case "v2noidx":
		in = refcar.EncodeV2(payload, 0, 0, nil, false)
	}
	os.WriteFile(filepath.Join(work, "in.car"), in, 0o644)
	tag := cs.Cmd
	x.Eval(1)
	x.Transition(1)
	run := func(stdin []byte, args ...string) drv.RunResult { return drv.Car(work, stdin, args...) }
	cmd, arg, _ := strings.Cut(cs.Cmd, ":")
	switch cmd {
	case "index":
		var r drv.RunResult
		switch arg {
		case "v1":
			r = run(nil, "index", "--version", "1", "in.car", "out.car")
		case "none":
			r = run(nil, "index", "--codec", "none", "in.car", "out.car")
		case "mh":
			r = run(nil, "index", "--codec", "car-multihash-index-sorted", "in.car", "out.car")
		case "sorted":
			r = run(nil, "index", "--codec", "car-index-sorted", "in.car", "out.car")
		}
		if r.Exit != 0 {
			x.Fail("c19:cmd-failed:"+tag, "car index failed on a valid archive: %s", clipS(string(r.Stderr), 300))
			return
		}
		c19Validate(x, work, "out.car", tag)
		out, _ := os.ReadFile(filepath.Join(work, "out.car"))
		fl, err := refcar.DecodeFile(out, false)
		if err != nil {
			return
		}
		if !bytes.Equal(fl.PayloadRaw, payload) {
			x.Fail("c19:index-payload:"+tag, "car index changed the payload")
		}
		switch arg {
		case "v1":
			if fl.Version != 1 {
				x.Fail("c19:index-version:"+tag, "index --version 1 produced version %d", fl.Version)
			}
		case "none":
			if fl.Version != 2 || fl.HasIndex {
				x.Fail("c19:index-none:"+tag, "index --codec none: version %d hasIndex %v", fl.Version, fl.HasIndex)
			}
		default:
			if fl.Version != 2 || !fl.HasIndex {
				x.Fail("c19:index-missing:"+tag, "no index in output")
				return
			}
			got := recMultiset(fl.IndexCodec, fl.Index)
			if got != recMultiset(fl.IndexCodec, refcar.RecordsOf(pl, false)) && got != recMultiset(fl.IndexCodec, refcar.RecordsOf(pl, true)) {
				x.Fail("c19:index-records:"+tag, "index {%s} is not the index of the payload (with or without identity entries)", got)
			}
		}
	case "index-create":
		codec := "car-multihash-index-sorted"
		if arg == "sorted" {
			codec = "car-index-sorted"
		}
		r := run(nil, "index", "--codec", codec, "create", "in.car", "out.idx")
		if r.Exit != 0 {
			x.Fail("c19:cmd-failed:"+tag, "car index create failed: %s", clipS(string(r.Stderr), 300))
			return
		}
		out, _ := os.ReadFile(filepath.Join(work, "out.idx"))
		cn, recs, err := refcar.DecodeIndex(out)
		if err != nil {
			x.Fail("c19:detached-index-malformed:"+tag, "detached index malformed: %v", err)
			return
		}
		got := recMultiset(cn, recs)
		if got != recMultiset(cn, refcar.RecordsOf(pl, false)) && got != recMultiset(cn, refcar.RecordsOf(pl, true)) {
			x.Fail("c19:detached-index-records:"+tag, "detached index {%s} is not the index of the payload", got)
		}
	case "detach", "detach-list":
		r := run(nil, "detach-index", "in.car", "out.idx")
		hasIdx := cs.Cont == "v2" || cs.Cont == "v2pad"
		if !hasIdx {
			if r.Exit == 0 {
				x.Fail("c19:detach-no-index:"+tag, "detach-index succeeded on an archive without index")
			}
			x.Outcome("refused")
			return
		}
		if r.Exit != 0 {
			x.Fail("c19:cmd-failed:"+tag, "detach-index failed: %s", clipS(string(r.Stderr), 300))
			return
		}
		out, _ := os.ReadFile(filepath.Join(work, "out.idx"))
		fin, _ := refcar.DecodeFile(in, false)
		if !bytes.Equal(out, fin.IndexRaw) {
			x.Fail("c19:detach-bytes:"+tag, "detached index differs from the embedded index bytes")
		}
		if cmd == "detach-list" {
			l := run(nil, "detach-index", "list", "out.idx")
			if cs.Cont == "v2pad" { // car-index-sorted is not iterable: refusal expected
				if l.Exit == 0 {
					x.Fail("c19:detach-list-sorted:"+tag, "listing a digest-only index succeeded")
				}
				return
			}
			var want []string
			for _, rec := range fin.Index {
				mh, _ := multihash.Encode(rec.Digest, rec.MhCode)
				want = append(want, fmt.Sprintf("%s %d", multihash.Multihash(mh).String(), rec.Offset))
			}
			got := strings.Split(strings.TrimSpace(string(l.Stdout)), "\n")
			if len(want) == 0 {
				got = nil
				if strings.TrimSpace(string(l.Stdout)) != "" {
					got = []string{string(l.Stdout)}
				}
			}
			sort.Strings(want)
			sort.Strings(got)
			if l.Exit != 0 || strings.Join(got, "|") != strings.Join(want, "|") {
				x.Fail("c19:detach-list:"+tag, "detach-index list prints %v (exit %d) want %v", got, l.Exit, want)
			}
		}
	case "filter":
		// selection: by argument
		var sel [][]byte
		switch arg {
		case "all":
			for _, b := range blks {
				sel = append(sel, b.Raw)
			}
		case "none":
		default:
			for i, b := range blks {
				if i%2 == 0 {
					sel = append(sel, b.Raw)
				}
			}
			sel = append(sel, kit.Absent.Raw)
		}
		var lines []string
		selected := map[string]bool{}
		for _, s := range sel {
			lines = append(lines, cidStr(s))
			selected[string(s)] = true
		}
		os.WriteFile(filepath.Join(work, "cids.txt"), []byte(strings.Join(lines, "\n")+"\n"), 0o644)
		args := []string{"filter", "--cid-file", "cids.txt"}
		inverse := arg == "inverse"
		if inverse {
			args = append(args, "--inverse")
		}
		v1 := arg == "v1"
		if v1 {
			args = append(args, "--version", "1")
		}
		var preBlocks []refcar.Block
		var preRoots [][]byte
		if arg == "append" {
			// an existing CARv2 to append to
			pre := refcar.EncodeV1([][]byte{kit.B("c").Raw}, false, []refcar.Block{kit.B("c").Ref()})
			ppl, _ := refcar.DecodePayload(pre, false, true)
			os.WriteFile(filepath.Join(work, "out.car"), refcar.EncodeV2(pre, 0, 0, refcar.EncodeIndex(refcar.CodecMhIndexSorted, refcar.RecordsOf(ppl, false)), false), 0o644)
			preBlocks = []refcar.Block{kit.B("c").Ref()}
			preRoots = [][]byte{kit.B("c").Raw}
			args = append(args, "--append")
		}
		args = append(args, "in.car", "out.car")
		r := run(nil, args...)
		if r.Exit != 0 {
			x.Fail("c19:cmd-failed:"+tag, "car filter failed: %s", clipS(string(r.Stderr), 300))
			return
		}
		c19Validate(x, work, "out.car", tag)
		out, _ := os.ReadFile(filepath.Join(work, "out.car"))
		fl, err := refcar.DecodeFile(out, false)
		if err != nil {
			return
		}
		// the library's answer: selected blocks in source order through the blockstore's documented rules
		m := &model.Map{}
		for _, b := range preBlocks {
			m.Stored = append(m.Stored, kit.Blk{Raw: b.Cid, Data: b.Data})
		}
		for _, b := range blks {
			if selected[string(b.Raw)] != inverse {
				m.Put(b)
			}
		}
		if d := sameBlocks(c19Blocks(fl), m.RefBlocks(), true); d != "" {
			x.Fail("c19:filter-blocks:"+tag, "filter output blocks differ from the selected blocks in source order: %s", d)
		}
		var wantRoots [][]byte
		if arg == "append" {
			wantRoots = preRoots
		} else {
			for _, rt := range rootRaws {
				if selected[string(rt)] != inverse {
					wantRoots = append(wantRoots, rt)
				}
			}
		}
		if !sameRoots(fl.Payload.Header.Roots, wantRoots) && !(len(wantRoots) == 0 && len(fl.Payload.Header.Roots) == 0) {
			x.Fail("c19:filter-roots:"+tag, "filter output roots %x want %x", fl.Payload.Header.Roots, wantRoots)
		}
		if v1 != (fl.Version == 1) {
			x.Fail("c19:filter-version:"+tag, "filter output version %d", fl.Version)
		}
	case "get-block":
		for _, q := range append(append([]kit.Blk{}, blks...), kit.Absent, kit.B("b")) {
			r := run(nil, "get-block", "in.car", cidStr(q.Raw), "blk.bin")
			x.Eval(1)
			present := false
			for _, b := range blks {
				if bytes.Equal(multihashBytes(b.Raw), multihashBytes(q.Raw)) {
					present = true
				}
			}
			ident := model.IsIdentity(q.Raw)
			if present || ident {
				got, _ := os.ReadFile(filepath.Join(work, "blk.bin"))
				if r.Exit != 0 || !bytes.Equal(got, q.Data) {
					x.Fail("c19:get-block:"+tag, "get-block %s: exit %d, %d bytes, want the block's %d bytes", q.Name, r.Exit, len(got), len(q.Data))
				}
			} else if r.Exit == 0 {
				x.Fail("c19:get-block-absent:"+tag, "get-block of an absent CID succeeded")
			}
			os.Remove(filepath.Join(work, "blk.bin"))
		}
	case "list":
		r := run(nil, "list", "in.car")
		var want []string
		for _, b := range blks {
			want = append(want, cidStr(b.Raw))
		}
		got := strings.Fields(string(r.Stdout))
		if r.Exit != 0 || strings.Join(got, ",") != strings.Join(want, ",") {
			x.Fail("c19:list:"+tag, "car list prints %v (exit %d) want scan order %v", got, r.Exit, want)
		}
		// and from stdin
		r2 := run(in, "list")
		if r2.Exit != 0 || string(r2.Stdout) != string(r.Stdout) {
			x.Fail("c19:list-stdin:"+tag, "car list from stdin differs (exit %d): %s", r2.Exit, clipS(string(r2.Stderr), 200))
		}
	case "root":
		r := run(nil, "root", "in.car")
		var want []string
		for _, rt := range rootRaws {
			want = append(want, cidStr(rt))
		}
		got := strings.Fields(string(r.Stdout))
		if r.Exit != 0 || strings.Join(got, ",") != strings.Join(want, ",") {
			x.Fail("c19:root:"+tag, "car root prints %v (exit %d) want %v", got, r.Exit, want)
		}
	case "inspect":
		r := run(nil, "inspect", "in.car")
		if r.Exit != 0 {
			x.Fail("c19:inspect-input:"+tag, "car inspect rejects a valid input: %s", clipS(string(r.Stderr), 200))
		} else if !strings.Contains(string(r.Stdout), fmt.Sprintf("Block count: %d\n", len(blks))) {
			x.Fail("c19:inspect-count:"+tag, "car inspect block count wrong: %s", clipS(string(r.Stdout), 300))
		}
	case "concat":
		parts := strings.Split(arg, ":")
		ver, n := parts[0], int(parts[1][0]-'0')
		// further inputs: the same content in another container, and a third fixed archive
		second := refcar.EncodeV2(payload, 5, 0, nil, false)
		os.WriteFile(filepath.Join(work, "in2.car"), second, 0o644)
		third := refcar.EncodeV1([][]byte{kit.B("c").Raw}, false, []refcar.Block{kit.B("c").Ref(), kit.B("e").Ref()})
		os.WriteFile(filepath.Join(work, "in3.car"), third, 0o644)
		args := []string{"concat", "-o", "out.car"}
		if ver == "v1" {
			args = append(args, "--version", "1")
		} else {
			args = append(args, "--version", "2")
		}
		inputs := []string{"in.car", "in2.car", "in3.car"}[:n]
		args = append(args, inputs...)
		r := run(nil, args...)
		if len(rootRaws) == 0 {
			x.Outcome("concat-rootless-input") // the legacy reader used by concat refuses root-less inputs (documented)
			return
		}
		if r.Exit != 0 {
			x.Fail("c19:cmd-failed:"+tag, "car concat failed: %s", clipS(string(r.Stderr), 300))
			return
		}
		want := append([]refcar.Block{}, rb...)
		if n >= 2 {
			want = append(want, rb...)
		}
		if n >= 3 {
			want = append(want, kit.B("c").Ref(), kit.B("e").Ref())
		}
		out, _ := os.ReadFile(filepath.Join(work, "out.car"))
		fl, err := refcar.DecodeFile(out, false)
		if err != nil {
			x.Fail("c19:concat-"+ver+":output-malformed", "concat --version %s output is not a well-formed archive: %v", strings.TrimPrefix(ver, "v"), err)
			return
		}
		c19Validate(x, work, "out.car", tag)
		if d := sameBlocks(c19Blocks(fl), want, true); d != "" {
			x.Fail("c19:concat-blocks:"+tag, "concat output is not the concatenation of the inputs' blocks: %s", d)
		}
		if !sameRoots(fl.Payload.Header.Roots, rootRaws) {
			x.Fail("c19:concat-roots:"+tag, "concat output roots differ from the first input's")
		}
	}
	x.State(fmt.Sprintf("%+v", cs))
	x.Outcome(cmd)
	if len(blks) >= 1 {
		x.Nontrivial(fmt.Sprintf("%+v", cs))
	}
}

// ---- get-dag on a UnixFS DAG -------------------------------------------------

type C19DagCase struct{}

func runC19Dag(x *kit.Ctx, cs C19Case) {
	work := filepath.Join(x.Dir, "c19")
	os.RemoveAll(work)
	os.MkdirAll(work, 0o755)
	defer os.RemoveAll(work)
	b := &ufsBuilder{}
	f1 := b.file([]byte("file one"))
	f2 := b.file([]byte("file two"))
	sub := b.dir([]pbLink{{Name: "x", Cid: f1, Size: 8}, {Name: "y", Cid: f2, Size: 8}})
	root := b.dir([]pbLink{{Name: "again", Cid: f1, Size: 8}, {Name: "sub", Cid: sub, Size: 30}})
	other := b.file([]byte("unrelated"))
	all := b.blocks
	var payload []byte
	switch cs.Arg {
	case "root-first":
		var l []refcar.Block
		for i := len(all) - 1; i >= 0; i-- {
			l = append(l, all[i])
		}
		payload = refcar.EncodeV1([][]byte{root}, false, l)
	default:
		payload = refcar.EncodeV1([][]byte{root}, false, all)
	}
	in := payload
	if cs.Cont == "v2" {
		pl, _ := refcar.DecodePayload(payload, false, true)
		in = refcar.EncodeV2(payload, 0, 0, refcar.EncodeIndex(refcar.CodecMhIndexSorted, refcar.RecordsOf(pl, false)), false)
	}
	os.WriteFile(filepath.Join(work, "in.car"), in, 0o644)
	_ = other
	reach := map[string][][]byte{
		cidStr(root): {root, f1, sub, f2},
		cidStr(sub):  {sub, f1, f2},
		cidStr(f1):   {f1},
	}
	for _, ver := range []string{"1", "2"} {
		for _, start := range [][]byte{nil, root, sub, f1} {
			args := []string{"get-dag", "--version", ver, "in.car"}
			want := reach[cidStr(root)]
			wantRoot := root
			if start != nil {
				args = append(args, cidStr(start))
				want = reach[cidStr(start)]
				wantRoot = start
			}
			args = append(args, "out.car")
			os.Remove(filepath.Join(work, "out.car"))
			r := drv.Car(work, nil, args...)
			x.Eval(1)
			tag := "get-dag:v" + ver
			if r.Exit != 0 {
				x.Fail("c19:cmd-failed:"+tag, "car get-dag failed: %s", clipS(string(r.Stderr), 300))
				continue
			}
			c19Validate(x, work, "out.car", tag)
			out, _ := os.ReadFile(filepath.Join(work, "out.car"))
			fl, err := refcar.DecodeFile(out, false)
			if err != nil {
				continue
			}
			var got [][]byte
			for _, s := range fl.Payload.Sections {
				got = append(got, s.Cid)
			}
			if !sameRoots(got, want) {
				x.Fail("c19:get-dag-blocks:"+tag, "get-dag output blocks %x want the DAG in first-visit order %x", got, want)
			}
			if !sameRoots(fl.Payload.Header.Roots, [][]byte{wantRoot}) {
				x.Fail("c19:get-dag-root:"+tag, "get-dag output root wrong")
			}
			x.Nontrivial(fmt.Sprintf("dag|%s|%s|%x", cs.Cont, ver, start))
		}
	}
	x.State(fmt.Sprintf("%+v", cs))
	x.Outcome("get-dag")
}

func genC19(tier string, emit func(any)) {
	names := []string{"a", "b", "a'", "i", "s", "e"}
	maxLen := 2
	if tier == "thorough" {
		names = append(names, "a0", "t", "k")
		maxLen = 2
	}
	var seqs [][]string
	kit.Seqs(names, maxLen, func(s []string) { seqs = append(seqs, s) })
	seqs = append(seqs, []string{"a", "b", "a", "s"}, []string{"L128", "a"})
	for _, sq := range seqs {
		for _, rs := range []string{"a", "ab", "empty"} {
			if rs != "a" && len(sq) == 2 && tier != "thorough" {
				continue
			}
			for _, cont := range []string{"v1", "v2", "v2pad", "v2noidx"} {
				for _, cmd := range c19Cmds {
					emit(C19Case{Roots: rs, Seq: sq, Cont: cont, Cmd: cmd})
				}
			}
		}
	}
	for _, cont := range []string{"v1", "v2"} {
		for _, arg := range []string{"", "root-first"} {
			emit(C19Case{Cont: cont, Cmd: "get-dag", Arg: arg})
		}
	}
}

func init() {
	kit.Register(&kit.Prop{
		ID:  "C19",
		Gen: genC19,
		Run: func(c any, x *kit.Ctx) {
			cs := c.(C19Case)
			if cs.Cmd == "get-dag" {
				runC19Dag(x, cs)
				return
			}
			runC19(c, x)
		},
		Setup:  func(string) error { return drv.BuildCar() },
		Decode: kit.DecodeAs[C19Case],
		Rule: "every input archive up to the bound laid out by the reference encoder (CARv1, CARv2, padded CARv2 with digest-only index, index-less CARv2; 1-2 roots or none; identity, duplicate and equal-multihash blocks) x every sub-command and flag set (index with each codec/none/--version 1, index create, detach-index (+list), filter plain/--inverse/--version 1/--append/all/none, get-block of every CID, list (file and stdin), root, concat of 1-3 inputs as v1 and v2, inspect, get-dag v1/v2 from every start node of a UnixFS DAG) run with the REAL car binary; " +
			"every produced archive is re-checked with car inspect --full and car verify and compared with the reference answer; non-trivial = non-empty input",
		Bound: func(tier string) map[string]any {
			return map[string]any{"seq_len": 2, "commands": len(c19Cmds) + 1, "containers": 4}
		},
		Assumptions: []string{"filter writes through the blockstore, so its documented de-duplication and identity rules apply to the selected blocks", "an index emitted by car index may or may not contain identity entries (both accepted)", "concat uses the legacy reader, which refuses root-less inputs (documented refusal)"},
	})
}
