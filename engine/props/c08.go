package props

import (
	"bytes"
	"encoding/json"
	"fmt"
	"os"
	"os/exec"
	"path/filepath"
	"runtime"
	"sort"
	"strings"
	"time"

	"github.com/anishathalye/porcupine"

	"verif/drv"
	"verif/kit"
	"verif/refcar"
	"verif/vsync"
)

// C08Case is one scenario under one configuration, explored by one subprocess.
type C08Case struct {
	Scenario string   `json:"scenario"`
	Opts     drv.Opts `json:"opts"`
	Bound    int      `json:"bound"`              // pre-emption bound (-1 = unbounded)
	Budget   int      `json:"budget,omitempty"`   // max executions (0 = none)
	Schedule []int    `json:"schedule,omitempty"` // replay exactly this schedule
	Race     bool     `json:"race,omitempty"`     // free-running -race complement instead of exploration
}

type c08Viol struct {
	Sig      string `json:"sig"`
	Msg      string `json:"msg"`
	Schedule []int  `json:"schedule"`
}

type c08Result struct {
	Schedules      int            `json:"schedules"`
	Points         int            `json:"points"`
	BoundCompleted int            `json:"bound_completed"`
	Exhaustive     bool           `json:"exhaustive"`
	Preempted      int            `json:"schedules_with_preemption"`
	Outcomes       map[string]int `json:"outcomes"`
	Violations     []c08Viol      `json:"violations"`
	HarnessError   string         `json:"harness_error,omitempty"`
	MaxThreads     int            `json:"max_threads"`
}

// c08Check judges one execution.
func c08Check(e *c08Env, x *vsync.Execution, scen string) (sigs []string, msgs []string, outcome string) {
	add := func(sig, f string, a ...any) {
		sigs = append(sigs, sig)
		msgs = append(msgs, fmt.Sprintf(f, a...))
	}
	for _, p := range x.Panics {
		add("c08:panic:"+scen+":"+c08PanicSite(p), "panic under schedule: %s", p)
	}
	if x.Deadlock {
		add("c08:deadlock:"+scen, "deadlock: %s", x.DeadlockAt)
	}
	for _, r := range x.Races {
		add("c08:race:"+r, "happens-before race on a hooked object: %s", r)
	}
	if x.Deadlock || len(x.Panics) > 0 {
		return sigs, msgs, "aborted"
	}
	// linearizability of the call/return history w.r.t. the set model
	model := c08PorcupineModel(e.whole)
	init := c08State{}
	var initKeys []string
	for k, t := range e.hist.putRet {
		if t == 0 {
			initKeys = append(initKeys, c08KeyOf(k, e.whole))
		}
	}
	sort.Strings(initKeys)
	init.keys = strings.Join(initKeys, ",")
	model.Init = func() interface{} { return init }
	if !porcupine.CheckOperations(model, e.hist.ops) {
		var sb strings.Builder
		for _, op := range e.hist.ops {
			fmt.Fprintf(&sb, "[c%d %d-%d %+v -> %+v] ", op.ClientId, op.Call, op.Return, op.Input, op.Output)
		}
		add("c08:not-linearizable:"+scen, "history is not linearizable w.r.t. the set model: %s", sb.String())
	}
	// listing oracle (weaker than an atomic snapshot on purpose)
	everPut := map[string]bool{}
	for k := range e.hist.putRet {
		everPut[c08KeyOf(k, e.whole)] = true
	}
	for _, op := range e.hist.ops {
		in := op.Input.(c08In)
		if in.Op == "put" || in.Op == "putmany" {
			for _, k := range in.Keys {
				everPut[c08KeyOf(k, e.whole)] = true
			}
		}
	}
	closedBefore := func(ts int64) bool {
		for _, op := range e.hist.ops {
			in := op.Input.(c08In)
			if (in.Op == "finalize" || in.Op == "discard" || in.Op == "close") && op.Call < ts {
				return true
			}
		}
		return false
	}
	for _, l := range e.hist.listings {
		if l.err {
			continue
		}
		seen := map[string]int{}
		for _, k := range l.keys {
			kk := c08KeyOf(k, e.whole)
			seen[kk]++
			if !everPut[kk] {
				add("c08:listing-phantom:"+scen, "AllKeysChan yielded %s which was never put", k)
			}
		}
		if e.dedup {
			for k, n := range seen {
				if n > 1 {
					add("c08:listing-duplicate:"+scen, "AllKeysChan yielded key %s %d times with de-duplication on", k, n)
				}
			}
		}
		if !l.cancelled && !closedBefore(l.ret) {
			for k, t := range e.hist.putRet {
				if t < l.call && seen[c08KeyOf(k, e.whole)] == 0 {
					add("c08:listing-missing:"+scen, "AllKeysChan (call at %d) lacks %s whose Put had returned at %d", l.call, k, t)
				}
			}
		}
	}
	// final file
	file, err := e.final()
	if err != nil {
		add("c08:final-finalize-error:"+scen, "finalizing after the scenario failed: %v", err)
	} else if file != nil {
		discarded := false
		for _, op := range e.hist.ops {
			if op.Input.(c08In).Op == "discard" {
				discarded = true
			}
		}
		if !discarded {
			fl, err := refcar.DecodeFile(file, false)
			if err != nil {
				add("c08:final-malformed:"+scen, "final file is not well-formed: %v", err)
			} else {
				cnt := map[string]int{}
				for _, s := range fl.Payload.Sections {
					cnt[string(multihashBytes(s.Cid))]++
				}
				okPuts := map[string]bool{}
				for k := range e.hist.putRet {
					okPuts[k] = true
				}
				for k := range okPuts {
					mh := string(multihashBytes(kit.B(k).Raw))
					if cnt[mh] == 0 {
						add("c08:final-missing:"+scen, "final file lacks block %s whose Put returned success", k)
					}
					if e.dedup && !e.whole && cnt[mh] > 1 {
						add("c08:final-duplicate:"+scen, "final file holds block %s %d times with de-duplication on", k, cnt[mh])
					}
				}
				if !bytes.HasPrefix(file, refcar.Pragma) && len(file) > 0 && false {
					add("c08:final-version:"+scen, "unexpected version")
				}
			}
		}
	}
	// outcome class = the observable results (for vacuity detection)
	var sb strings.Builder
	for _, op := range e.hist.ops {
		o := op.Output.(c08Out)
		fmt.Fprintf(&sb, "%s%v:%v/%v;", op.Input.(c08In).Op, op.Input.(c08In).Keys, o.Err, o.Found)
	}
	for _, l := range e.hist.listings {
		fmt.Fprintf(&sb, "keys%v/%v;", l.keys, l.err)
	}
	return sigs, msgs, sb.String()
}

func c08PanicSite(p string) string {
	for _, l := range strings.Split(p, "\n") {
		l = strings.TrimSpace(l)
		if strings.HasPrefix(l, "github.com/ipld/go-car") || strings.HasPrefix(l, "github.com/petar") {
			if i := strings.Index(l, "("); i > 0 {
				l = l[:i]
			}
			return l
		}
	}
	return "unknown"
}

// c08RunOne executes one schedule prefix on a fresh instance.
func c08RunOne(sc *c08Scenario, o drv.Opts, dir string, prefix []int) (*vsync.Execution, []string, []string, string) {
	e := sc.New(dir, o)
	defer e.cleanup()
	x := vsync.Run(prefix, e.names, e.bodies)
	if x.Diverged != "" {
		return x, nil, nil, ""
	}
	sigs, msgs, outcome := c08Check(e, x, sc.Name)
	return x, sigs, msgs, outcome
}

func preemptionsBefore(x *vsync.Execution, i int) int {
	n := 0
	for j := 0; j < i && j < len(x.Points); j++ {
		p := x.Points[j]
		if p.RunningEnabled && p.Enabled[p.Choice] != p.Running {
			n++
		}
	}
	return n
}

// C08ExploreMain is the entry point of the explorer subprocess: explore one scenario.
func C08ExploreMain(arg string) int {
	var cs C08Case
	if err := json.Unmarshal([]byte(arg), &cs); err != nil {
		fmt.Fprintln(os.Stderr, err)
		return 2
	}
	sc := c08FindScenario(cs.Scenario)
	if sc == nil {
		fmt.Fprintln(os.Stderr, "unknown scenario", cs.Scenario)
		return 2
	}
	dir, err := os.MkdirTemp("/dev/shm", "c08x")
	if err != nil {
		dir, _ = os.MkdirTemp("", "c08x")
	}
	defer os.RemoveAll(dir)
	res := &c08Result{Outcomes: map[string]int{}, Exhaustive: true}
	seenSig := map[string]bool{}
	record := func(x *vsync.Execution, sigs, msgs []string) {
		for i, s := range sigs {
			if !seenSig[s] {
				seenSig[s] = true
				res.Violations = append(res.Violations, c08Viol{Sig: s, Msg: msgs[i], Schedule: append([]int{}, x.Choices...)})
			}
		}
	}
	if cs.Schedule != nil {
		x, sigs, msgs, _ := c08RunOne(sc, cs.Opts, dir, cs.Schedule)
		if x.Diverged != "" {
			res.HarnessError = x.Diverged
		}
		// replay twice: identical observations or it is a harness determinism error
		x2, sigs2, _, _ := c08RunOne(sc, cs.Opts, dir, cs.Schedule)
		if fmt.Sprint(x.Choices) != fmt.Sprint(x2.Choices) || fmt.Sprint(sigs) != fmt.Sprint(sigs2) {
			res.HarnessError = "replaying the same schedule twice gave different observations"
		}
		record(x, sigs, msgs)
		res.Schedules = 1
		b, _ := json.Marshal(res)
		fmt.Println(string(b))
		return 0
	}
	bounds := []int{0, 1, 2}
	if cs.Bound >= 0 {
		bounds = bounds[:0]
		for b := 0; b <= cs.Bound; b++ {
			bounds = append(bounds, b)
		}
	} else {
		bounds = []int{1 << 30}
	}
	res.BoundCompleted = -1
	for _, bound := range bounds {
		// each bound re-explores the smaller ones; counts are those of the last bound
		res.Schedules, res.Points, res.Preempted = 0, 0, 0
		res.Outcomes = map[string]int{}
		stop := false
		var explore func(prefix []int)
		explore = func(prefix []int) {
			if stop {
				return
			}
			if cs.Budget > 0 && res.Schedules >= cs.Budget {
				res.Exhaustive = false
				stop = true
				return
			}
			x, sigs, msgs, outcome := c08RunOne(sc, cs.Opts, dir, prefix)
			if x.Diverged != "" {
				res.HarnessError = x.Diverged
				stop = true
				return
			}
			res.Schedules++
			res.Points += len(x.Points)
			if preemptionsBefore(x, len(x.Points)) > 0 {
				res.Preempted++
			}
			res.Outcomes[outcome]++
			for _, p := range x.Points {
				if len(p.Enabled) > res.MaxThreads {
					res.MaxThreads = len(p.Enabled)
				}
			}
			record(x, sigs, msgs)
			for i := len(prefix); i < len(x.Points); i++ {
				p := x.Points[i]
				cost := preemptionsBefore(x, i)
				for alt := 1; alt < p.Alts; alt++ {
					c := cost
					if p.RunningEnabled && p.Enabled[alt] != p.Running {
						c++
					}
					if c > bound {
						continue
					}
					explore(append(append([]int{}, x.Choices[:i]...), alt))
				}
			}
		}
		explore(nil)
		if res.HarnessError != "" || stop {
			break
		}
		res.BoundCompleted = bound
		if len(res.Violations) > 0 {
			break // the first counterexample has the fewest pre-emptions
		}
	}
	b, _ := json.Marshal(res)
	fmt.Println(string(b))
	return 0
}

// ---------------------------------------------------------------- coordinator side (kit.Prop)

var c08Bin = filepath.Join(kit.VerifDir, "bin", "worker-c08")
var c08RaceBin = filepath.Join(kit.VerifDir, "bin", "worker-c08race")

func c08Setup(tier string) error {
	env := append(os.Environ(), "GOFLAGS=-mod=mod", "GOPROXY=off", "GOSUMDB=off", "GOTOOLCHAIN=local")
	// 1. regenerate the sync-rewrite overlay from /repo's current sources
	gen := exec.Command("go", "run", "./cmd/vrewrite", "-out", filepath.Join(kit.VerifDir, "bin", "c08overlay"))
	gen.Dir = filepath.Join(kit.VerifDir, "engine")
	gen.Env = append(env, "CGO_ENABLED=0")
	if out, err := gen.CombinedOutput(); err != nil {
		return fmt.Errorf("vrewrite failed (cannot place scheduler hooks in the current sources): %v\n%s", err, out)
	}
	// 2. explorer binary: real code on the shim
	b := exec.Command("go", "build", "-tags", "verif", "-overlay", filepath.Join(kit.VerifDir, "bin", "c08overlay", "overlay.json"), "-o", c08Bin, "./cmd/worker")
	b.Dir = filepath.Join(kit.VerifDir, "engine")
	b.Env = append(env, "CGO_ENABLED=0")
	if out, err := b.CombinedOutput(); err != nil {
		return fmt.Errorf("building the explorer failed: %v\n%s", err, out)
	}
	// 3. -race complement binary: real sync, same scenario bodies
	r := exec.Command("go", "build", "-race", "-tags", "verif", "-overlay", filepath.Join(kit.VerifDir, "engine", "overlay.json"), "-o", c08RaceBin, "./cmd/worker")
	r.Dir = filepath.Join(kit.VerifDir, "engine")
	r.Env = append(env, "CGO_ENABLED=1")
	if out, err := r.CombinedOutput(); err != nil {
		return fmt.Errorf("building the -race complement failed: %v\n%s", err, out)
	}
	return nil
}

func runC08(c any, x *kit.Ctx) {
	cs := c.(C08Case)
	arg, _ := json.Marshal(cs)
	if cs.Race {
		c08RunRace(cs, x, string(arg))
		return
	}
	cmd := exec.Command(c08Bin, "C08-explore", string(arg))
	cmd.Env = append(os.Environ(), "GOMAXPROCS=1")
	var stderr bytes.Buffer
	cmd.Stderr = &stderr
	out, err := cmd.Output()
	if err != nil {
		x.Fail("c08:harness:explorer-crashed:"+cs.Scenario, "explorer subprocess failed: %v\n%s", err, clipS(stderr.String(), 3000))
		return
	}
	var res c08Result
	if err := json.Unmarshal(bytes.TrimSpace(out), &res); err != nil {
		x.Fail("c08:harness:bad-output:"+cs.Scenario, "cannot parse explorer output: %v: %s", err, clipS(string(out), 500))
		return
	}
	if res.HarnessError != "" {
		x.Fail("c08:harness:"+cs.Scenario, "harness error: %s", res.HarnessError)
		return
	}
	x.Eval(res.Schedules)
	x.Transition(res.Points)
	x.AddStates(res.Schedules)
	x.Count("schedules", res.Schedules)
	x.Count("schedules_with_preemption", res.Preempted)
	if !res.Exhaustive {
		x.Count("capped_scenarios", 1)
		x.NotExhaustive(fmt.Sprintf("%s %+v: execution cap %d hit at pre-emption bound %d; bound %d fully covered", cs.Scenario, cs.Opts, cs.Budget, res.BoundCompleted+1, res.BoundCompleted))
	}
	x.Note(fmt.Sprintf("%s %+v", cs.Scenario, cs.Opts), map[string]any{"schedules": res.Schedules, "scheduling_points": res.Points, "preemption_bound_completed": res.BoundCompleted, "distinct_outcomes": len(res.Outcomes), "exhaustive_within_bound": res.Exhaustive, "max_enabled_alternatives": res.MaxThreads})
	for o := range res.Outcomes {
		x.Outcome(cs.Scenario + ":" + o)
		x.Nontrivial(fmt.Sprintf("%s|%+v|%s", cs.Scenario, cs.Opts, o))
	}
	for _, v := range res.Violations {
		rc := cs
		rc.Schedule = v.Schedule
		x.FailCase(rc, v.Sig, "%s (schedule %v)", v.Msg, v.Schedule)
	}
}

func clipS(s string, n int) string {
	if len(s) > n {
		return s[:n] + "..."
	}
	return s
}

// c08RunRace runs the scenario bodies free-running under the race detector.
func c08RunRace(cs C08Case, x *kit.Ctx, arg string) {
	cmd := exec.Command(c08RaceBin, "C08-race", arg)
	cmd.Env = append(os.Environ(), "GORACE=halt_on_error=0 exitcode=0")
	var stderr bytes.Buffer
	cmd.Stderr = &stderr
	out, err := cmd.Output()
	if err != nil {
		x.Fail("c08:harness:race-run-crashed:"+cs.Scenario, "race complement failed: %v\n%s", err, clipS(stderr.String(), 3000))
		return
	}
	n := 0
	fmt.Sscanf(strings.TrimSpace(string(out)), "runs=%d", &n)
	x.Count("race_pass_runs", n)
	x.Eval(1)
	// one signature per distinct pair of go-car frames
	reports := strings.Split(stderr.String(), "WARNING: DATA RACE")
	for _, rep := range reports[1:] {
		var frames []string
		for _, l := range strings.Split(rep, "\n") {
			l = strings.TrimSpace(l)
			if strings.HasPrefix(l, "github.com/ipld/go-car/v2") && !strings.Contains(l, "verifbridge") {
				l = strings.TrimSuffix(l, "()")
				l = strings.TrimPrefix(l, "github.com/ipld/go-car/v2/")
				if i := strings.Index(l, ".func"); i > 0 {
					l = l[:i]
				}
				dup := false
				for _, f := range frames {
					if f == l {
						dup = true
					}
				}
				if !dup {
					frames = append(frames, l)
				}
				if len(frames) == 2 {
					break
				}
			}
		}
		if len(frames) == 0 {
			// a race inside the harness itself, not in go-car: a harness defect
			x.Fail("c08:harness:race-in-harness", "race detector report without a go-car frame:\n%s", clipS(rep, 2500))
			continue
		}
		sort.Strings(frames)
		x.Fail("c08:race-detector:"+strings.Join(frames, "||"), "Go race detector report in the free-running complement of %s:\n%s", cs.Scenario, clipS(rep, 2500))
	}
}

// C08RaceMain runs scenario bodies on real goroutines repeatedly (sampling; complement only).
func C08RaceMain(arg string) int {
	var cs C08Case
	if err := json.Unmarshal([]byte(arg), &cs); err != nil {
		return 2
	}
	sc := c08FindScenario(cs.Scenario)
	dir, err := os.MkdirTemp("/dev/shm", "c08r")
	if err != nil {
		dir, _ = os.MkdirTemp("", "c08r")
	}
	defer os.RemoveAll(dir)
	runs := cs.Budget
	if runs == 0 {
		runs = 200
	}
	deadline := time.Now().Add(20 * time.Second)
	n := 0
	for ; n < runs && time.Now().Before(deadline); n++ {
		e := sc.New(dir, cs.Opts)
		done := make(chan struct{}, len(e.bodies)*4)
		// 2..16 goroutines: every body is started several times on the shared instance
		copies := 1 + n%4
		total := 0
		for k := 0; k < copies; k++ {
			for _, b := range e.bodies {
				total++
				b := b
				go func() {
					defer func() { recover(); done <- struct{}{} }()
					b()
				}()
			}
		}
		for i := 0; i < total; i++ {
			select {
			case <-done:
			case <-time.After(30 * time.Second):
				fmt.Fprintln(os.Stderr, "race complement: scenario did not finish (not an oracle)")
				i = total
			}
		}
		e.cleanup()
		runtime.Gosched()
	}
	fmt.Printf("runs=%d\n", n)
	return 0
}

func genC08(tier string, emit func(any)) {
	cfgs := []drv.Opts{{}, {AllowDup: true}, {Whole: true}}
	bound := 2
	budget := 250000
	if tier == "thorough" {
		bound = 6
		budget = 1500000
	}
	for _, sc := range c08Scenarios {
		for _, o := range cfgs {
			if (sc.Name == "S8" || sc.Name == "S7") && o.AllowDup {
				continue
			}
			emit(C08Case{Scenario: sc.Name, Opts: o, Bound: bound, Budget: budget})
		}
	}
	for _, sc := range c08Scenarios {
		emit(C08Case{Scenario: sc.Name, Opts: drv.Opts{}, Race: true, Budget: 150})
	}
}

func init() {
	kit.Register(&kit.Prop{
		ID:                "C08",
		Gen:               genC08,
		Run:               runC08,
		Setup:             c08Setup,
		SamplingSigPrefix: "c08:race-detector:",
		Decode:            kit.DecodeAs[C08Case],
		Rule: "stateless exploration of thread interleavings of the REAL blockstore/storage/deferred code under a controlled scheduler: the current sources are mechanically rewritten (sync -> shim, go -> scheduler threads, select -> modelled channel operation, accesses of index/writer objects -> happens-before hooks); " +
			"every schedule of 15 scenarios (3-4 threads, 1-2 calls each, colliding keys, listing concurrent with puts, finalize/discard concurrent with readers) x 3 de-dup configurations is enumerated depth-first with iterative pre-emption bounding (0,1,2; thorough up to 6 or the execution cap, whichever comes first, the completed bound is reported per scenario); per schedule: no panic, no deadlock, vector-clock race check, porcupine linearizability w.r.t. the set model, listing oracle, strict decode of the final file; " +
			"states = schedules executed; non-trivial = distinct (scenario, configuration, observable outcome); a free-running -race pass of the same bodies is reported separately (race_pass_runs) and is sampling, not the deciding step",
		Bound: func(tier string) map[string]any {
			if tier == "thorough" {
				return map[string]any{"preemption_bound": 6, "threads": "3-4 (+ goroutines spawned by AllKeysChan)", "execution_cap_per_scenario": 1500000}
			}
			return map[string]any{"preemption_bound": 2, "threads": "3-4 (+ goroutines spawned by AllKeysChan)", "execution_cap_per_scenario": 250000}
		},
		Assumptions: []string{"scheduling points at lock acquisition, channel operations, goroutine start and explicit harness yields; unsynchronised accesses to memory that is not hooked are only seen by the -race complement", "Go memory model weak-memory effects below sync operations are not modelled", "2..16 goroutines are explored exhaustively only for 3-4 threads; more appear only in the sampling -race complement"},
		Parallel:    0,
	})
}
