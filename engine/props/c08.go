package props

import (
	"bytes"
	"encoding/json"
	"fmt"
	"os"
	"os/exec"
	"path/filepath"
	"regexp"
	"runtime"
	"runtime/debug"
	"sort"
	"strings"
	"sync"
	"time"

	"github.com/anishathalye/porcupine"

	"verif/drv"
	"verif/kit"
	"verif/refcar"
	"verif/vsync"
)

// C08Case is one scenario under one configuration, explored by one subprocess.
type C08Case struct {
	Scenario string   `json:"scenario"`
	Opts     drv.Opts `json:"opts"`
	Bound    int      `json:"bound"`              // pre-emption bound (-1 = unbounded)
	Budget   int      `json:"budget,omitempty"`   // max executions (0 = none)
	Schedule []int    `json:"schedule,omitempty"` // replay exactly this schedule
	Race     bool     `json:"race,omitempty"`     // free-running -race complement instead of exploration
}

type c08Viol struct {
	Sig      string `json:"sig"`
	Msg      string `json:"msg"`
	Schedule []int  `json:"schedule"`
}

type c08Result struct {
	Schedules      int               `json:"schedules"`
	Points         int               `json:"points"`
	BoundCompleted int               `json:"bound_completed"`
	Exhaustive     bool              `json:"exhaustive"`
	Preempted      int               `json:"schedules_with_preemption"`
	Outcomes       map[string]int    `json:"outcomes"`
	Violations     []c08Viol         `json:"violations"`
	Beyond         map[string]int    `json:"beyond,omitempty"` // beyond-statement observations: what -> schedules showing it
	Info           map[string]int    `json:"info,omitempty"`   // informational scenarios: signature -> schedules showing it
	InfoExample    map[string]string `json:"info_example,omitempty"`
	HarnessError   string            `json:"harness_error,omitempty"`
	MaxThreads     int               `json:"max_threads"`
}

// c08Check judges one execution. free = the bodies ran on real goroutines (the -race
// complement): there is no schedule, timestamps come from a global atomic counter.
func c08Check(e *c08Env, x *vsync.Execution, scen string, free bool) (sigs []string, msgs []string, outcome string) {
	add := func(sig, f string, a ...any) {
		sigs = append(sigs, sig)
		msgs = append(msgs, fmt.Sprintf(f, a...))
	}
	// note records behaviour the property statement is silent about ("beyond-statement:<what>"
	// outcomes: part of the evidence, never a violation)
	e.beyond = nil
	note := func(what string) {
		for _, b := range e.beyond {
			if b == what {
				return
			}
		}
		e.beyond = append(e.beyond, what)
	}
	for _, p := range x.Panics {
		add("c08:panic:"+scen+":"+c08PanicSite(p), "panic under schedule: %s", p)
	}
	if x.Deadlock {
		add("c08:deadlock:"+scen, "deadlock: %s", x.DeadlockAt)
	}
	for _, r := range x.Races {
		add("c08:race:"+r, "happens-before race on a hooked object: %s", r)
	}
	if x.Deadlock || len(x.Panics) > 0 {
		return sigs, msgs, "aborted"
	}
	cfg := e.cfg
	// linearizability of the call/return history w.r.t. the set model
	init := c08State{ro: e.preRO}
	for _, k := range e.pre {
		if cfg.class(k) == c08Normal {
			init = c08StateAdd(init, c08KeyOf(k, cfg.whole))
		}
	}
	model := c08PorcupineModel(cfg, init)
	linOK := true
	if free {
		// many goroutines: bounded effort, an undecided history is not a verdict
		switch porcupine.CheckOperationsTimeout(model, e.hist.ops, 2*time.Second) {
		case porcupine.Illegal:
			linOK = false
		case porcupine.Unknown:
			outcome = "lin-undecided"
		}
	} else {
		linOK = porcupine.CheckOperations(model, e.hist.ops)
	}
	if !linOK {
		var sb strings.Builder
		for _, op := range e.hist.ops {
			fmt.Fprintf(&sb, "[c%d %d-%d %+v -> %+v] ", op.ClientId, op.Call, op.Return, op.Input, op.Output)
		}
		add("c08:not-linearizable:"+scen, "history is not linearizable w.r.t. the set model (initial state %+v): %s", init, sb.String())
	}
	// beyond the statement (accepted by the model, recorded): a read that succeeds although a
	// lifecycle call had closed the store before it was invoked, and an error other than a
	// not-found error for a key while nothing had started to close the store
	closedAt, closingFrom := int64(-1), int64(-1)
	for _, op := range e.hist.ops {
		switch in := op.Input.(c08In); in.Op {
		case "finalize", "close", "discard":
			if closingFrom < 0 || op.Call < closingFrom {
				closingFrom = op.Call
			}
			if (in.Op == "discard" || !op.Output.(c08Out).Err) && (closedAt < 0 || op.Return < closedAt) {
				closedAt = op.Return
			}
		}
	}
	for _, op := range e.hist.ops {
		in, out := op.Input.(c08In), op.Output.(c08Out)
		switch in.Op {
		case "has", "get", "size":
			if cfg.class(in.Keys[0]) != c08Normal {
				continue
			}
			if !out.Err && closedAt >= 0 && op.Call > closedAt {
				note("read-served-by-closed-store")
			}
			if in.Op != "has" && out.Err && !out.NotFound && (closingFrom < 0 || op.Return < closingFrom) {
				note("absent-key-error-is-not-a-not-found-error")
			}
		}
	}
	// listing oracle (weaker than an atomic snapshot on purpose): nothing that was never put,
	// nothing more often than stored, and - for every listing whose AllKeysChan call succeeded
	// and that was not cancelled - every key whose Put had returned before the call. Whether
	// the call itself may fail is part of the history above (op "keys").
	attempts := map[string]int{}
	for _, k := range e.pre {
		if cfg.class(k) == c08Normal {
			attempts[c08KeyOf(k, cfg.whole)]++
		}
	}
	for _, op := range e.hist.ops {
		in := op.Input.(c08In)
		if in.Op == "put" || in.Op == "putmany" {
			for _, k := range in.Keys {
				if cfg.class(k) == c08Normal {
					attempts[c08KeyOf(k, cfg.whole)]++
				}
			}
		}
	}
	for _, l := range e.hist.listings {
		if l.err {
			continue
		}
		seen := map[string]int{}
		for _, k := range l.keys {
			if strings.HasPrefix(k, "?") {
				add("c08:listing-phantom:"+scen, "AllKeysChan yielded %s which was never put", k)
				continue
			}
			kk := c08KeyOf(k, cfg.whole)
			seen[kk]++
			if attempts[kk] == 0 {
				add("c08:listing-phantom:"+scen, "AllKeysChan yielded %s which was never put", k)
			}
		}
		for k, n := range seen {
			if cfg.dedup && n > 1 {
				add("c08:listing-duplicate:"+scen, "AllKeysChan yielded key %s %d times with de-duplication on", k, n)
			} else if n > attempts[k] && attempts[k] > 0 {
				add("c08:listing-duplicate:"+scen, "AllKeysChan yielded key %s %d times but it was put only %d times", k, n, attempts[k])
			}
		}
		if !l.cancelled {
			for k, t := range e.hist.putRet {
				if cfg.class(k) == c08Normal && t < l.call && seen[c08KeyOf(k, cfg.whole)] == 0 {
					add("c08:listing-missing:"+scen, "AllKeysChan (call at %d, returned a channel at %d, drained at %d) lacks %s whose Put had returned at %d", l.call, l.got, l.ret, k, t)
				}
			}
		}
	}
	// final file
	file, err := e.final()
	if err != nil {
		add("c08:final-finalize-error:"+scen, "finalizing after the scenario failed: %v", err)
	} else if !e.noFile {
		discarded, finalized := false, false
		firstDiscard, firstFinalized := int64(-1), int64(-1)
		for _, op := range e.hist.ops {
			switch op.Input.(c08In).Op {
			case "discard":
				discarded = true
				if firstDiscard < 0 || op.Call < firstDiscard {
					firstDiscard = op.Call
				}
			case "finalize":
				if !op.Output.(c08Out).Err {
					finalized = true
					if firstFinalized < 0 || op.Return < firstFinalized {
						firstFinalized = op.Return
					}
				}
			}
		}
		// After a Discard the file is only complete if a Finalize reported success. A Finalize
		// that was not over before the first Discard began may have run on the discarded store,
		// and the result of a lifecycle call on a closed store is not specified (it may report
		// success without doing anything): when the CARv2 header was never written, that is what
		// happened, and there is no finalized file to judge.
		check := !discarded || finalized
		if discarded && finalized && !(firstFinalized < firstDiscard) && !cfg.v1 && c08HeaderUnwritten(file) {
			check = false
			note("finalize-on-discarded-store-reported-success")
		}
		if check {
			c08CheckFile(e, file, scen, add, note)
		}
	}
	if e.extra != nil {
		e.extra(add)
	}
	if outcome != "" {
		return sigs, msgs, outcome
	}
	// outcome class = the observable results (for vacuity detection)
	var sb strings.Builder
	for _, op := range e.hist.ops {
		o := op.Output.(c08Out)
		fmt.Fprintf(&sb, "%s%v:%v/%v;", op.Input.(c08In).Op, op.Input.(c08In).Keys, o.Err, o.Found)
	}
	for _, l := range e.hist.listings {
		fmt.Fprintf(&sb, "keys%v/%v;", l.keys, l.err)
	}
	return sigs, msgs, sb.String()
}

// c08HeaderUnwritten reports whether f is a CARv2 whose 40-byte header was never written
// (all zero: the state before Finalize, and after a resumption cleared it).
func c08HeaderUnwritten(f []byte) bool {
	if !bytes.HasPrefix(f, refcar.Pragma) {
		return false
	}
	for i := refcar.PragmaSize; i < refcar.PragmaSize+refcar.V2HeaderSize && i < len(f); i++ {
		if f[i] != 0 {
			return false
		}
	}
	return true
}

// c08IndexCover is the index oracle: every record must point at the start of a section whose
// CID carries that hash, and every key of the payload must have at least one record. How many
// records a key that was stored several times (AllowDuplicatePuts) gets is not specified; exact
// reports whether the index holds precisely one record per section.
func c08IndexCover(codec uint64, got, want []refcar.IndexRecord) (problems []string, exact bool) {
	keyOf := func(r refcar.IndexRecord) string {
		k := recKey(codec, r)
		return k[:strings.LastIndex(k, "@")]
	}
	at, wantKeys, gotKeys := map[string]bool{}, map[string]bool{}, map[string]bool{}
	for _, r := range want {
		at[recKey(codec, r)] = true
		wantKeys[keyOf(r)] = true
	}
	for _, r := range got {
		if !at[recKey(codec, r)] {
			problems = append(problems, fmt.Sprintf("record %s does not point at a section with that hash", recKey(codec, r)))
			continue
		}
		gotKeys[keyOf(r)] = true
	}
	var missing []string
	for k := range wantKeys {
		if !gotKeys[k] {
			missing = append(missing, k)
		}
	}
	sort.Strings(missing)
	for _, k := range missing {
		problems = append(problems, fmt.Sprintf("no record for %s, which is in the payload", k))
	}
	return problems, recMultiset(codec, got) == recMultiset(codec, want)
}

// c08CheckFile judges the output of a finished session: strict decode, version, roots, the
// section multiset against the puts of the history, and the index against the payload.
func c08CheckFile(e *c08Env, file []byte, scen string, add func(sig, f string, a ...any), note func(what string)) {
	cfg := e.cfg
	// expected number of sections per key: [lo, hi]; puts = successful Puts of the key.
	// With AllowDuplicatePuts the statement fixes no number of copies: at least one per key that
	// was put successfully, at most one per Put that can have written it.
	lo, hi, puts := map[string]int{}, map[string]int{}, map[string]int{}
	written := map[string]bool{} // block names a put may legitimately have written
	stored := func(n string, certain bool) {
		if cfg.class(n) != c08Normal {
			return
		}
		written[n] = true
		k := c08KeyOf(n, cfg.whole)
		if cfg.dedup {
			if certain {
				lo[k] = 1
			}
			hi[k] = 1
			return
		}
		if certain {
			lo[k] = 1
			puts[k]++
		}
		hi[k]++
	}
	for _, n := range e.pre {
		stored(n, true)
	}
	for _, op := range e.hist.ops {
		in := op.Input.(c08In)
		if in.Op != "put" && in.Op != "putmany" {
			continue
		}
		if !op.Output.(c08Out).Err {
			for _, n := range in.Keys {
				stored(n, true)
			}
			continue
		}
		// a failed batch may have stored the blocks before the one that was refused
		for _, n := range in.Keys {
			if cfg.class(n) == c08TooLarge {
				break
			}
			if in.Op == "putmany" {
				stored(n, false)
			}
		}
	}
	if file == nil {
		for k, n := range lo {
			if n > 0 {
				add("c08:final-missing:"+scen, "there is no output at all, but the Put of %s returned success", k)
			}
		}
		return
	}
	fl, err := refcar.DecodeFile(file, false)
	if err != nil {
		add("c08:final-malformed:"+scen, "final file is not well-formed: %v (%d bytes: %x)", err, len(file), clip(file))
		return
	}
	wantVer := 2
	if cfg.v1 {
		wantVer = 1
	}
	if fl.Version != wantVer {
		add("c08:final-version:"+scen, "final file is a CARv%d, expected a CARv%d", fl.Version, wantVer)
	}
	if h := fl.Payload.Header; len(h.Roots) != 1 || !bytes.Equal(h.Roots[0], kit.B("a").Raw) {
		add("c08:final-roots:"+scen, "final file has roots %x, the store was created with [%x]", h.Roots, kit.B("a").Raw)
	}
	cnt := map[string]int{}
	for _, s := range fl.Payload.Sections {
		n := c08NameOfRaw(s.Cid)
		if n == "" || !written[n] {
			add("c08:final-extra:"+scen, "final file holds a section with CID %x (%s) that no successful Put wrote", s.Cid, n)
			continue
		}
		if !bytes.Equal(s.Data, kit.B(n).Data) {
			add("c08:final-extra:"+scen, "final file holds block %s with data %x", n, clip(s.Data))
		}
		cnt[c08KeyOf(n, cfg.whole)]++
	}
	for k := range hi {
		switch {
		case cnt[k] < lo[k]:
			add("c08:final-missing:"+scen, "final file holds block %s %d times; Puts that returned success require %d", k, cnt[k], lo[k])
		case !cfg.dedup && cnt[k] < puts[k]:
			note("allow-duplicate-puts-fewer-copies-than-puts")
		case cnt[k] > hi[k] && cfg.dedup:
			add("c08:final-duplicate:"+scen, "final file holds block %s %d times with de-duplication on", k, cnt[k])
		case cnt[k] > hi[k]:
			add("c08:final-extra:"+scen, "final file holds block %s %d times but only %d Puts can have written it", k, cnt[k], hi[k])
		}
	}
	if fl.Version == 2 {
		if !fl.HasIndex {
			add("c08:final-index:"+scen, "finalized CARv2 has no index")
		} else if problems, exact := c08IndexCover(fl.IndexCodec, fl.Index, refcar.RecordsOf(fl.Payload, cfg.storeID)); len(problems) > 0 {
			add("c08:final-index:"+scen, "index does not resolve the sections of the payload: %s (index {%s}, sections {%s})", strings.Join(problems, "; "),
				recMultiset(fl.IndexCodec, fl.Index), recMultiset(fl.IndexCodec, refcar.RecordsOf(fl.Payload, cfg.storeID)))
		} else if !exact {
			note("index-not-one-record-per-section")
		}
	}
}

func c08PanicSite(p string) string {
	for _, l := range strings.Split(p, "\n") {
		l = strings.TrimSpace(l)
		if strings.HasPrefix(l, "github.com/ipld/go-car") || strings.HasPrefix(l, "github.com/petar") {
			if i := strings.Index(l, "("); i > 0 {
				l = l[:i]
			}
			return l
		}
	}
	return "unknown"
}

// c08RunOne executes one schedule prefix on a fresh instance.
func c08RunOne(sc *c08Scenario, o drv.Opts, dir string, prefix []int) (*vsync.Execution, []string, []string, string, []string) {
	e := sc.New(dir, o)
	defer e.cleanup()
	x := vsync.Run(prefix, e.names, e.bodies)
	if x.Diverged != "" {
		return x, nil, nil, "", nil
	}
	sigs, msgs, outcome := c08Check(e, x, sc.Name, false)
	return x, sigs, msgs, outcome, e.beyond
}

func preemptionsBefore(x *vsync.Execution, i int) int {
	n := 0
	for j := 0; j < i && j < len(x.Points); j++ {
		p := x.Points[j]
		if p.RunningEnabled && p.Enabled[p.Choice] != p.Running {
			n++
		}
	}
	return n
}

// C08ExploreMain is the entry point of the explorer subprocess: explore one scenario.
func C08ExploreMain(arg string) int {
	var cs C08Case
	if err := json.Unmarshal([]byte(arg), &cs); err != nil {
		fmt.Fprintln(os.Stderr, err)
		return 2
	}
	sc := c08FindScenario(cs.Scenario)
	if sc == nil {
		fmt.Fprintln(os.Stderr, "unknown scenario", cs.Scenario)
		return 2
	}
	dir, err := os.MkdirTemp("/dev/shm", "c08x")
	if err != nil {
		dir, _ = os.MkdirTemp("", "c08x")
	}
	defer os.RemoveAll(dir)
	res := &c08Result{Outcomes: map[string]int{}, Exhaustive: true}
	seenSig := map[string]bool{}
	record := func(x *vsync.Execution, sigs, msgs []string) {
		if sc.Info {
			// outside the property statement: counted, never a violation
			if res.Info == nil {
				res.Info, res.InfoExample = map[string]int{}, map[string]string{}
			}
			once := map[string]bool{}
			for i, s := range sigs {
				if !once[s] {
					once[s] = true
					res.Info[s]++
				}
				if !seenSig[s] {
					seenSig[s] = true
					res.InfoExample[s] = fmt.Sprintf("%s (schedule %v)", clipS(msgs[i], 600), x.Choices)
				}
			}
			return
		}
		for i, s := range sigs {
			if !seenSig[s] {
				seenSig[s] = true
				res.Violations = append(res.Violations, c08Viol{Sig: s, Msg: msgs[i], Schedule: append([]int{}, x.Choices...)})
			}
		}
	}
	if cs.Schedule != nil {
		x, sigs, msgs, _, _ := c08RunOne(sc, cs.Opts, dir, cs.Schedule)
		if x.Diverged != "" {
			res.HarnessError = x.Diverged
		}
		// replay twice: identical observations or it is a harness determinism error
		x2, sigs2, _, _, _ := c08RunOne(sc, cs.Opts, dir, cs.Schedule)
		if fmt.Sprint(x.Choices) != fmt.Sprint(x2.Choices) || fmt.Sprint(sigs) != fmt.Sprint(sigs2) {
			res.HarnessError = "replaying the same schedule twice gave different observations"
		}
		record(x, sigs, msgs)
		res.Schedules = 1
		b, _ := json.Marshal(res)
		fmt.Println(string(b))
		return 0
	}
	bounds := []int{0, 1, 2}
	if cs.Bound >= 0 {
		bounds = bounds[:0]
		for b := 0; b <= cs.Bound; b++ {
			bounds = append(bounds, b)
		}
	} else {
		bounds = []int{1 << 30}
	}
	res.BoundCompleted = -1
	for _, bound := range bounds {
		// each bound re-explores the smaller ones; counts are those of the last bound
		res.Schedules, res.Points, res.Preempted = 0, 0, 0
		res.Outcomes = map[string]int{}
		res.Beyond = nil
		if res.Info != nil {
			res.Info = map[string]int{}
		}
		stop := false
		var explore func(prefix []int)
		explore = func(prefix []int) {
			if stop {
				return
			}
			if cs.Budget > 0 && res.Schedules >= cs.Budget {
				res.Exhaustive = false
				stop = true
				return
			}
			x, sigs, msgs, outcome, beyond := c08RunOne(sc, cs.Opts, dir, prefix)
			if x.Diverged != "" {
				res.HarnessError = x.Diverged
				stop = true
				return
			}
			res.Schedules++
			for _, b := range beyond {
				if res.Beyond == nil {
					res.Beyond = map[string]int{}
				}
				res.Beyond[b]++
			}
			res.Points += len(x.Points)
			if preemptionsBefore(x, len(x.Points)) > 0 {
				res.Preempted++
			}
			res.Outcomes[outcome]++
			for _, p := range x.Points {
				if len(p.Enabled) > res.MaxThreads {
					res.MaxThreads = len(p.Enabled)
				}
			}
			record(x, sigs, msgs)
			for i := len(prefix); i < len(x.Points); i++ {
				p := x.Points[i]
				cost := preemptionsBefore(x, i)
				for alt := 1; alt < p.Alts; alt++ {
					c := cost
					if p.RunningEnabled && p.Enabled[alt] != p.Running {
						c++
					}
					if c > bound {
						continue
					}
					explore(append(append([]int{}, x.Choices[:i]...), alt))
				}
			}
		}
		explore(nil)
		if res.HarnessError != "" || stop {
			break
		}
		res.BoundCompleted = bound
		if len(res.Violations) > 0 {
			break // the first counterexample has the fewest pre-emptions
		}
	}
	b, _ := json.Marshal(res)
	fmt.Println(string(b))
	return 0
}

// ---------------------------------------------------------------- coordinator side (kit.Prop)

var c08Bin = filepath.Join(kit.VerifDir, "bin", "worker-c08")
var c08RaceBin = filepath.Join(kit.VerifDir, "bin", "worker-c08race")

func c08Setup(tier string) error {
	env := append(os.Environ(), "GOFLAGS=-mod=mod", "GOPROXY=off", "GOSUMDB=off", "GOTOOLCHAIN=local")
	// 1. regenerate the sync-rewrite overlay from /repo's current sources
	genArgs := []string{"run", "./cmd/vrewrite", "-out", filepath.Join(kit.VerifDir, "bin", "c08overlay")}
	// development only (tools/seedtest_ovl.sh): explore a patched copy of the tree without touching /repo
	devOverlay, devSrc := os.Getenv("VCHECK_OVERLAY"), os.Getenv("VCHECK_SRC_V2")
	if devSrc != "" {
		genArgs = append(genArgs, "-src", devSrc)
	}
	gen := exec.Command("go", genArgs...)
	gen.Dir = filepath.Join(kit.VerifDir, "engine")
	gen.Env = append(env, "CGO_ENABLED=0")
	if out, err := gen.CombinedOutput(); err != nil {
		return fmt.Errorf("vrewrite failed (cannot place scheduler hooks in the current sources): %v\n%s", err, out)
	}
	raceOverlay := filepath.Join(kit.VerifDir, "engine", "overlay.json")
	if devOverlay != "" {
		// files the patch replaces but vrewrite does not rewrite must reach the explorer build too
		type ov struct{ Replace map[string]string }
		var gen, dev ov
		gp := filepath.Join(kit.VerifDir, "bin", "c08overlay", "overlay.json")
		gb, _ := os.ReadFile(gp)
		db, _ := os.ReadFile(devOverlay)
		if json.Unmarshal(gb, &gen) != nil || json.Unmarshal(db, &dev) != nil {
			return fmt.Errorf("cannot merge VCHECK_OVERLAY into the explorer overlay")
		}
		for k, v := range dev.Replace {
			if _, ok := gen.Replace[k]; !ok {
				gen.Replace[k] = v
			}
		}
		mb, _ := json.Marshal(gen)
		if err := os.WriteFile(gp, mb, 0o644); err != nil {
			return err
		}
		raceOverlay = devOverlay
	}
	// 2. explorer binary: real code on the shim
	b := exec.Command("go", "build", "-tags", "verif", "-overlay", filepath.Join(kit.VerifDir, "bin", "c08overlay", "overlay.json"), "-o", c08Bin, "./cmd/worker")
	b.Dir = filepath.Join(kit.VerifDir, "engine")
	b.Env = append(env, "CGO_ENABLED=0")
	if out, err := b.CombinedOutput(); err != nil {
		return fmt.Errorf("building the explorer failed: %v\n%s", err, out)
	}
	// 3. -race complement binary: real sync, same scenario bodies
	r := exec.Command("go", "build", "-race", "-tags", "verif", "-overlay", raceOverlay, "-o", c08RaceBin, "./cmd/worker")
	r.Dir = filepath.Join(kit.VerifDir, "engine")
	r.Env = append(env, "CGO_ENABLED=1")
	if out, err := r.CombinedOutput(); err != nil {
		return fmt.Errorf("building the -race complement failed: %v\n%s", err, out)
	}
	return nil
}

func runC08(c any, x *kit.Ctx) {
	cs := c.(C08Case)
	arg, _ := json.Marshal(cs)
	if cs.Race {
		c08RunRace(cs, x, string(arg))
		return
	}
	cmd := exec.Command(c08Bin, "C08-explore", string(arg))
	cmd.Env = append(os.Environ(), "GOMAXPROCS=1")
	var stderr bytes.Buffer
	cmd.Stderr = &stderr
	out, err := cmd.Output()
	if err != nil {
		x.Fail("c08:harness:explorer-crashed:"+cs.Scenario, "explorer subprocess failed: %v\n%s", err, clipS(stderr.String(), 3000))
		return
	}
	var res c08Result
	if err := json.Unmarshal(bytes.TrimSpace(out), &res); err != nil {
		x.Fail("c08:harness:bad-output:"+cs.Scenario, "cannot parse explorer output: %v: %s", err, clipS(string(out), 500))
		return
	}
	if res.HarnessError != "" {
		x.Fail("c08:harness:"+cs.Scenario, "harness error: %s", res.HarnessError)
		return
	}
	x.Eval(res.Schedules)
	x.Transition(res.Points)
	x.AddStates(res.Schedules)
	x.Count("schedules", res.Schedules)
	x.Count("schedules_with_preemption", res.Preempted)
	if !res.Exhaustive {
		x.Count("capped_scenarios", 1)
		x.NotExhaustive(fmt.Sprintf("%s %+v: execution cap %d hit at pre-emption bound %d; bound %d fully covered", cs.Scenario, cs.Opts, cs.Budget, res.BoundCompleted+1, res.BoundCompleted))
	}
	x.Note(fmt.Sprintf("%s %+v", cs.Scenario, cs.Opts), map[string]any{"schedules": res.Schedules, "scheduling_points": res.Points, "preemption_bound_completed": res.BoundCompleted, "distinct_outcomes": len(res.Outcomes), "exhaustive_within_bound": res.Exhaustive, "max_enabled_alternatives": res.MaxThreads})
	for o := range res.Outcomes {
		x.Outcome(cs.Scenario + ":" + o)
		x.Nontrivial(fmt.Sprintf("%s|%+v|%s", cs.Scenario, cs.Opts, o))
	}
	for what, n := range res.Beyond {
		// behaviour the statement is silent about: part of the evidence, never a violation
		x.Outcome("beyond-statement:" + what)
		x.Count("beyond_statement_schedules:"+what, n)
	}
	for sig, n := range res.Info {
		// informational scenario (outside the property statement): reported, never a violation
		x.Count("informational_schedules:"+sig, n)
		x.Note(fmt.Sprintf("informational %s %+v %s", cs.Scenario, cs.Opts, sig), map[string]any{"schedules_showing_it": n, "of": res.Schedules, "example": res.InfoExample[sig]})
	}
	for _, v := range res.Violations {
		rc := cs
		rc.Schedule = v.Schedule
		x.FailCase(rc, v.Sig, "%s (schedule %v)", v.Msg, v.Schedule)
	}
}

func clipS(s string, n int) string {
	if len(s) > n {
		return s[:n] + "..."
	}
	return s
}

// c08FreeSig is the signature prefix of everything the free-running complement reports (it is
// the kit's SamplingSigPrefix: such findings need not reproduce on every re-execution).
const c08FreeSig = "c08:race-detector:"

// c08RunRace runs the scenario bodies free-running under the race detector.
func c08RunRace(cs C08Case, x *kit.Ctx, arg string) {
	cmd := exec.Command(c08RaceBin, "C08-race", arg)
	cmd.Env = append(os.Environ(), "GORACE=halt_on_error=0 exitcode=0")
	var stderr bytes.Buffer
	cmd.Stderr = &stderr
	out, err := cmd.Output()
	if err != nil {
		x.Fail("c08:harness:race-run-crashed:"+cs.Scenario, "race complement failed: %v\n%s", err, clipS(stderr.String(), 3000))
		return
	}
	var res c08FreeResult
	if err := json.Unmarshal(bytes.TrimSpace(out), &res); err != nil {
		x.Fail("c08:harness:bad-output:"+cs.Scenario, "cannot parse the output of the race complement: %v: %s", err, clipS(string(out), 500))
		return
	}
	x.Count("race_pass_runs", res.Runs)
	for what, n := range res.Beyond {
		x.Outcome("beyond-statement:" + what)
		x.Count("beyond_statement_free_runs:"+what, n)
	}
	x.Count("race_pass_histories_undecided", res.Undecided)
	if res.Slow != "" {
		x.Note("race complement slow "+cs.Scenario, res.Slow)
	}
	x.Eval(1)
	info := false
	if sc := c08FindScenario(cs.Scenario); sc != nil && sc.Info {
		info = true // outside the property statement: reported, never a violation
	}
	fail := func(sig, f string, a ...any) {
		if info {
			x.Count("informational_free_runs:"+sig, 1)
			x.Note("informational (free-running) "+cs.Scenario+" "+sig, clipS(fmt.Sprintf(f, a...), 1500))
			return
		}
		x.Fail(sig, f, a...)
	}
	for _, v := range res.Violations {
		fail(c08FreeSig+"free-run:"+strings.TrimPrefix(v.Sig, "c08:"), "free-running complement of %s %+v: %s", cs.Scenario, cs.Opts, clipS(v.Msg, 4000))
	}
	// one signature per distinct pair of go-car frames
	reports := strings.Split(stderr.String(), "WARNING: DATA RACE")
	for _, rep := range reports[1:] {
		var frames []string
		for _, l := range strings.Split(rep, "\n") {
			l = strings.TrimSpace(l)
			if strings.HasPrefix(l, "github.com/ipld/go-car/v2") && !strings.Contains(l, "verifbridge") {
				l = strings.TrimSuffix(l, "()")
				l = strings.TrimPrefix(l, "github.com/ipld/go-car/v2/")
				if i := strings.Index(l, ".func"); i > 0 {
					l = l[:i]
				}
				dup := false
				for _, f := range frames {
					if f == l {
						dup = true
					}
				}
				if !dup {
					frames = append(frames, l)
				}
				if len(frames) == 2 {
					break
				}
			}
		}
		if len(frames) == 0 {
			// a race inside the harness itself, not in go-car: a harness defect
			x.Fail("c08:harness:race-in-harness", "race detector report without a go-car frame:\n%s", clipS(rep, 2500))
			continue
		}
		sort.Strings(frames)
		fail(c08FreeSig+strings.Join(frames, "||"), "Go race detector report in the free-running complement of %s:\n%s", cs.Scenario, clipS(rep, 2500))
	}
}

type c08FreeResult struct {
	Runs       int            `json:"runs"`
	Undecided  int            `json:"undecided"`
	Violations []c08Viol      `json:"violations"`
	Slow       string         `json:"slow,omitempty"`
	Beyond     map[string]int `json:"beyond,omitempty"`
}

// c08HangTimeout is NOT a performance oracle: a run takes microseconds; after this long the
// goroutine dump decides (every unfinished body blocked on a lock or channel = hang).
const c08HangTimeout = 60 * time.Second

var c08BlockedState = regexp.MustCompile(`^goroutine \d+ \[(semacquire|sync\.[A-Za-z.]+|chan send|chan receive|select)(, [^\]]*)?\]:`)

// c08Hung inspects a dump of all goroutines: it reports (true, dump) when there are unfinished
// scenario bodies and every one of them is blocked on a lock or a channel.
func c08Hung() (bool, string) {
	buf := make([]byte, 1<<20)
	buf = buf[:runtime.Stack(buf, true)]
	bodies, blocked := 0, 0
	var sb strings.Builder
	for _, g := range strings.Split(string(buf), "\n\n") {
		if !strings.Contains(g, "props.c08FreeRun.func") {
			continue
		}
		bodies++
		if c08BlockedState.MatchString(g) {
			blocked++
		}
		sb.WriteString(g + "\n\n")
	}
	return bodies > 0 && bodies == blocked, sb.String()
}

// c08FreeRun runs every body `copies` times on real goroutines sharing the instance.
// It returns the panics, and hung=true when the bodies are deadlocked.
func c08FreeRun(e *c08Env, copies int) (panics []string, hung bool, slow string) {
	var mu sync.Mutex
	total := copies * len(e.bodies)
	done := make(chan struct{}, total)
	for k := 0; k < copies; k++ {
		for _, b := range e.bodies {
			b := b
			go func() {
				defer func() {
					if r := recover(); r != nil {
						mu.Lock()
						panics = append(panics, fmt.Sprintf("%v\n%s", r, debug.Stack()))
						mu.Unlock()
					}
					done <- struct{}{}
				}()
				b()
			}()
		}
	}
	for i := 0; i < total; i++ {
		waited := 0
	wait:
		for {
			select {
			case <-done:
				break wait
			case <-time.After(c08HangTimeout):
				waited++
				h, dump := c08Hung()
				if h {
					mu.Lock()
					defer mu.Unlock()
					return append(panics, "HANG\n"+dump), true, ""
				}
				if waited >= 5 {
					return nil, false, fmt.Sprintf("bodies still running after %v without being blocked (machine overloaded?):\n%s", time.Duration(waited)*c08HangTimeout, clipS(dump, 3000))
				}
			}
		}
	}
	mu.Lock()
	defer mu.Unlock()
	return panics, false, ""
}

// C08RaceMain runs scenario bodies on real goroutines repeatedly (sampling; complement only):
// the race detector watches, and every run is judged by the same oracles as an explored
// schedule (panic, hang, linearizability with a bounded search, listing, final file).
func C08RaceMain(arg string) int {
	var cs C08Case
	if err := json.Unmarshal([]byte(arg), &cs); err != nil {
		return 2
	}
	sc := c08FindScenario(cs.Scenario)
	if sc == nil {
		fmt.Fprintln(os.Stderr, "unknown scenario", cs.Scenario)
		return 2
	}
	dir, err := os.MkdirTemp("/dev/shm", "c08r")
	if err != nil {
		dir, _ = os.MkdirTemp("", "c08r")
	}
	defer os.RemoveAll(dir)
	runs := cs.Budget
	if runs == 0 {
		runs = 200
	}
	res := c08FreeResult{}
	seen := map[string]bool{}
	deadline := time.Now().Add(20 * time.Second)
	for ; res.Runs < runs && time.Now().Before(deadline); res.Runs++ {
		e := sc.New(dir, cs.Opts)
		// 2..16 goroutines: every body is started several times on the shared instance
		copies := 1 + res.Runs%4
		panics, hung, slow := c08FreeRun(e, copies)
		if slow != "" {
			res.Slow = slow
			break
		}
		if hung {
			res.Violations = append(res.Violations, c08Viol{Sig: "c08:hang:" + sc.Name, Msg: fmt.Sprintf("with %d goroutines on one instance every unfinished goroutine is blocked on a lock or channel after %v:\n%s", copies*len(e.bodies), c08HangTimeout, strings.Join(panics, "\n"))})
			res.Runs++
			break // the blocked goroutines (and the locks they hold) cannot be cleaned up
		}
		sigs, msgs, outcome := c08Check(e, &vsync.Execution{Panics: panics}, sc.Name, true)
		if outcome == "lin-undecided" {
			res.Undecided++
		}
		for _, b := range e.beyond {
			if res.Beyond == nil {
				res.Beyond = map[string]int{}
			}
			res.Beyond[b]++
		}
		for i, s := range sigs {
			if !seen[s] {
				seen[s] = true
				res.Violations = append(res.Violations, c08Viol{Sig: s, Msg: fmt.Sprintf("(%d goroutines) %s", copies*len(e.bodies), msgs[i])})
			}
		}
		e.cleanup()
		runtime.Gosched()
	}
	b, _ := json.Marshal(res)
	fmt.Println(string(b))
	return 0
}

func genC08(tier string, emit func(any)) {
	bound := 2
	budget := 250000
	raceRuns := 150
	if tier == "thorough" {
		bound = 6
		budget = 1500000
		raceRuns = 400
	}
	type job struct {
		c    C08Case
		cost int
	}
	var jobs []job
	for _, sc := range c08Scenarios {
		opts := c08DefaultOpts
		if sc.Opts != nil {
			opts = sc.Opts
		}
		for _, o := range opts(tier) {
			b := budget
			if tier == "thorough" && sc.Name != "S9" {
				// the execution cap of the new scenarios is lower (CPU budget); S9 keeps the original cap
				b = 400000
				if sc.Name == "S31" {
					b = 250000
				}
				if sc.Name == "S32" {
					b = 120000 // bound 2 complete; bound 3 exceeds any affordable cap
				}
				if sc.Info {
					b = 50000
				}
			}
			jobs = append(jobs, job{C08Case{Scenario: sc.Name, Opts: o, Bound: bound, Budget: b}, c08Cost[sc.Name]})
		}
	}
	// the longest explorations first (the cases run on a pool of workers)
	sort.SliceStable(jobs, func(i, j int) bool { return jobs[i].cost > jobs[j].cost })
	for _, j := range jobs {
		emit(j.c)
	}
	// free-running -race complement: every scenario inside the statement x a reduced
	// configuration matrix (quick: first two configurations; thorough: all of them)
	for _, sc := range c08Scenarios {
		if sc.NoRace {
			continue
		}
		opts := c08DefaultOpts
		if sc.Opts != nil {
			opts = sc.Opts
		}
		l := opts(tier)
		if tier != "thorough" && sc.Opts == nil {
			l = []drv.Opts{{}, {AllowDup: true}, {V1: true}}
		} else if tier != "thorough" && len(l) > 2 {
			l = l[:2]
		}
		for _, o := range l {
			emit(C08Case{Scenario: sc.Name, Opts: o, Race: true, Budget: raceRuns})
		}
	}
}

// c08Cost orders the explorer cases (rough relative number of schedules at bound 2).
var c08Cost = map[string]int{"S9": 100, "S5": 20, "S21": 15, "S32": 15, "S8": 10, "S31": 10, "S2": 8, "S12": 8, "S6": 8, "S7": 8, "S11": 5}

func init() {
	kit.Register(&kit.Prop{
		ID:                "C08",
		Gen:               genC08,
		Run:               runC08,
		Setup:             c08Setup,
		SamplingSigPrefix: c08FreeSig,
		CaseTimeout:       -1, // a case is one explorer subprocess (capped by executions; its own deadlock/hang detection applies)
		Decode:            kit.DecodeAs[C08Case],
		Rule: "stateless exploration of thread interleavings of the REAL blockstore/storage/deferred code under a controlled scheduler: the current sources are mechanically rewritten (sync -> shim, go -> scheduler threads, send-or-done select -> modelled channel operation, done-or-default select -> modelled poll, accesses of index/writer objects -> happens-before hooks, store-state hooks at the first mention of the typestate flag (or after the first lock call) whose kind is read in a field-assignment-free section under a read lock, a listing-goroutine hook when the goroutine can reach the store; every other non-test file of the go-car v2 module is scanned and the rewrite refuses goroutines, channels, select, sync and sync/atomic outside the rewritten files); " +
			"every schedule of 35 scenarios (2-4 threads, 1-3 calls each with a scheduling point between the calls of a thread; colliding keys a/a', 3-4 concurrent writers, 2-3 overlapping readers of the same kind (Has || Has, Get || Get, GetSize || GetSize) next to a writer, batches, listing concurrent with puts, finalize/discard/close concurrent with readers and with each other, identity CIDs with StoreIdentityCIDs on/off, a batch refused by MaxIndexCidSize) over every writable front end (blockstore OpenReadWrite new / resumed / OpenReadWriteFile, storage NewReadableWritable / OpenReadableWritable resumed / NewWritable over a plain io.Writer, deferred writer for a path / for a stream) plus read-only views (NewReadOnly, OpenReadOnly with mmap) x the configuration matrix {dedup, AllowDuplicatePuts, UseWholeCIDs, WriteAsCarV1} (4 single-option configurations; thorough: +3 option pairs for the 8 scenarios with colliding puts; stream front ends: the CARv1 ones; identity scenarios: StoreIdentityCIDs x {dup, v1, whole}) is enumerated depth-first with iterative pre-emption bounding (0,1,2; thorough up to 6 or the execution cap, whichever comes first, the completed bound is reported per scenario); " +
			"per schedule: no panic, no deadlock, vector-clock race check, porcupine linearizability w.r.t. a nondeterministic set model that includes the AllKeysChan call itself (error only if closed), Roots content and the lifecycle (a read of a closed store may fail or be answered correctly, an absent key is reported by any error); listing oracle (nothing never put, nothing more often than put, and every successful uncancelled listing holds every key whose Put returned before the call, whatever is closed meanwhile); final output: strict decode, version = WriteAsCarV1, roots, section multiset = exactly the successful puts (one per distinct key with de-duplication - by whole CID when UseWholeCIDs -, with AllowDuplicatePuts at least one per key put successfully and at most one per put that can have written it, no section of a put that returned an error), index: every record points at the start of a section with that hash and every key of the payload has a record; recorded as beyond-statement outcomes, never violations: read-served-by-closed-store, absent-key-error-is-not-a-not-found-error, allow-duplicate-puts-fewer-copies-than-puts, index-not-one-record-per-section, finalize-on-discarded-store-reported-success (a Finalize not over before the first Discard began, CARv2 header never written: no finalized file to judge); " +
			"2 informational scenarios outside the statement (consumer of ReadOnly.AllKeysChan calling Get while Close is pending; DeferredCarWriter.OnPut concurrent with Put) are reported as counts, never as violations; " +
			"states = schedules executed; non-trivial = distinct (scenario, configuration, observable outcome); a free-running -race pass of the same bodies (2-16 goroutines, scenario x reduced configuration matrix) is judged by the race detector and by the same oracles (panic, hang = every unfinished goroutine blocked on a lock/channel in a goroutine dump, linearizability with a 2 s search limit, listing, final output); it is reported separately (race_pass_runs) and is sampling, not the deciding step",
		Bound: func(tier string) map[string]any {
			if tier == "thorough" {
				return map[string]any{"preemption_bound": 6, "threads": "2-4 (+ goroutines spawned by AllKeysChan)", "scenarios": len(c08Scenarios), "configurations_per_scenario": "4; 7 for the 8 scenarios with colliding puts (S9: 3, S21: 2, stream: 3, identity: 7, MaxIndexCidSize: 5, read-only: 2)", "execution_cap_per_scenario": "400000 (S9: 1500000; S31: 250000; S32: 120000; informational: 50000)", "race_pass_runs_per_case": 400}
			}
			return map[string]any{"preemption_bound": 2, "threads": "2-4 (+ goroutines spawned by AllKeysChan)", "scenarios": len(c08Scenarios), "configurations_per_scenario": "4 (S9: 3, S21: 2, stream: 3, identity: 4, MaxIndexCidSize: 3, read-only: 2 or 1)", "execution_cap_per_scenario": 250000, "race_pass_runs_per_case": 150}
		},
		Assumptions: []string{"scheduling points at lock acquisition, channel operations, goroutine start and explicit harness yields (between the calls of one thread, before a cancellation); unsynchronised accesses to memory that is not hooked are only seen by the -race complement", "Go memory model weak-memory effects below sync operations are not modelled", "2..16 goroutines are explored exhaustively only for 2-4 threads; more appear only in the sampling -race complement",
			"not specified, hence any result accepted: the result of a lifecycle call on an already closed store (the first one must succeed), Roots and identity-CID queries on a closed store, which prefix of a batch a failed PutMany stored, AllKeysChan on a closed ReadOnly, whether Has/Get/GetSize of a closed store fail or still answer (correctly), which error reports an absent key, the number of copies (>= 1, <= puts) and of index records (>= 1 per key) of a block put several times with AllowDuplicatePuts",
			"the hang verdict of the -race complement needs 60 s without progress AND a goroutine dump in which every unfinished body is blocked on a lock or channel; a slow machine alone is never a violation"},
		Parallel: 0,
	})
}
