package props

import (
	"bytes"
	"errors"
	"fmt"
	"io"
	"os"
	"path/filepath"
	"sort"
	"strings"
	"testing/iotest"

	"github.com/ipfs/go-cid"
	carv2 "github.com/ipld/go-car/v2"
	"github.com/ipld/go-car/v2/blockstore"
	"github.com/ipld/go-car/v2/index"
	"github.com/ipld/go-car/v2/storage"
	"github.com/multiformats/go-multihash"

	"verif/drv"
	"verif/kit"
	"verif/refcar"
)

type C03Case struct {
	Seq     []string `json:"seq"`
	Cont    string   `json:"cont"` // v1, v1null, v2, v2pad, v2idx, v2null
	Kind    string   `json:"kind"` // sorted, mh, insertion
	API     string   `json:"api"`  // gen-bytes gen-file gen-stream rog-bytes rog-file rog-rs ro-at ro-bytes st-at st-bytes
	StoreID bool     `json:"storeid,omitempty"`
	ZeroEOF bool     `json:"zeroeof,omitempty"`
	MaxCid  uint64   `json:"maxcid,omitempty"`
}

type rsOnly struct{ rs io.ReadSeeker }

func (r rsOnly) Read(p []byte) (int, error)         { return r.rs.Read(p) }
func (r rsOnly) Seek(o int64, w int) (int64, error) { return r.rs.Seek(o, w) }

// buildContainer lays the blocks out with refcar. embedded = records written as the embedded index.
func buildContainer(cont string, rootRaws [][]byte, blks []refcar.Block, storeID bool, codec uint64) (file []byte, payload []byte) {
	payload = refcar.EncodeV1(rootRaws, false, blks)
	switch cont {
	case "v1":
		return payload, payload
	case "v1null":
		return append(append([]byte{}, payload...), make([]byte, 9)...), payload
	case "v2":
		return refcar.EncodeV2(payload, 0, 0, nil, false), payload
	case "v2pad":
		return refcar.EncodeV2(payload, 5, 0, nil, false), payload
	case "v2null":
		padded := append(append([]byte{}, payload...), make([]byte, 4)...)
		return refcar.EncodeV2(padded, 3, 0, nil, false), payload
	case "v2idx":
		p, err := refcar.DecodePayload(payload, false, false)
		if err != nil {
			panic(err)
		}
		idx := refcar.EncodeIndex(codec, refcar.RecordsOf(p, storeID))
		return refcar.EncodeV2(payload, 5, 3, idx, storeID), payload
	}
	panic("unknown container " + cont)
}

func offsetsStr(l []uint64) string {
	sort.Slice(l, func(i, j int) bool { return l[i] < l[j] })
	return fmt.Sprint(l)
}

func runC03(c any, x *kit.Ctx) {
	cs := c.(C03Case)
	_, rootRaws, _ := kit.Roots("a")
	blks := kit.Bs(cs.Seq)
	var rb []refcar.Block
	for _, b := range blks {
		rb = append(rb, b.Ref())
	}
	o := drv.Opts{StoreID: cs.StoreID, ZeroEOF: cs.ZeroEOF, MaxCid: cs.MaxCid}
	if cs.Kind == "sorted" {
		o.Codec = "sorted"
	}
	codecNumber := codecNum(o)
	file, payload := buildContainer(cs.Cont, rootRaws, rb, cs.StoreID, codecNumber)
	opts := o.List()
	pl, err := refcar.DecodePayload(payload, false, true)
	if err != nil {
		panic(err)
	}
	want := refcar.RecordsOf(pl, cs.StoreID)
	maxCid := cs.MaxCid
	if maxCid == 0 {
		maxCid = 2048
	}
	wantTooLarge := false
	for _, s := range pl.Sections {
		if s.Info.MhCode == refcar.MhIdentity && !cs.StoreID {
			continue
		}
		if uint64(len(s.Cid)) > maxCid {
			wantTooLarge = true
		}
	}
	nullPadded := cs.Cont == "v1null" || cs.Cont == "v2null"
	wantNullErr := nullPadded && !cs.ZeroEOF

	// build the index through the chosen API
	var idx index.Index
	var src io.Reader
	var cleanup func()
	mkSrc := func(kind string) {
		switch kind {
		case "bytes":
			src = bytes.NewReader(file)
		case "stream":
			src = drv.PlainReader{R: bytes.NewReader(file)}
		case "pipe":
			// an *os.File over a pipe: has a Seek method, is not seekable
			pr, pw, err := os.Pipe()
			if err != nil {
				panic(err)
			}
			go func() { pw.Write(file); pw.Close() }()
			src = pr
			cleanup = func() { pr.Close() }
		case "onebyte":
			src = iotest.OneByteReader(bytes.NewReader(file)) // short reads: an environment deviation
		case "half":
			src = iotest.HalfReader(bytes.NewReader(file))
		case "rs":
			src = rsOnly{bytes.NewReader(file)}
		case "file":
			p := filepath.Join(x.Dir, "c03.car")
			if err := os.WriteFile(p, file, 0o644); err != nil {
				panic(err)
			}
			f, err := os.Open(p)
			if err != nil {
				panic(err)
			}
			src = f
			cleanup = func() { f.Close(); os.Remove(p) }
		}
	}
	embedded := false // index came from the file rather than from a scan
	api, srcKind, _ := strings.Cut(cs.API, "-")
	x.Eval(1)
	x.Transition(len(blks) + 1)
	switch api {
	case "gen":
		mkSrc(srcKind)
		if cs.Kind == "insertion" {
			ii := index.NewInsertionIndex()
			err = carv2.LoadIndex(ii, src, opts...)
			idx = ii
		} else {
			idx, err = carv2.GenerateIndex(src, opts...)
		}
	case "genfile":
		// GenerateIndexFromFile(path)
		pth := filepath.Join(x.Dir, "c03-gf.car")
		if werr := os.WriteFile(pth, file, 0o644); werr != nil {
			panic(werr)
		}
		cleanup = func() { os.Remove(pth) }
		if cs.Kind == "insertion" {
			err = errors.New("n/a")
		} else {
			idx, err = carv2.GenerateIndexFromFile(pth, opts...)
		}
	case "rog":
		mkSrc(srcKind)
		idx, err = carv2.ReadOrGenerateIndex(src.(io.ReadSeeker), opts...)
		embedded = cs.Cont == "v2idx"
	case "ro":
		var ra io.ReaderAt = bytes.NewReader(file)
		if srcKind == "at" {
			ra = drv.OnlyReaderAt{R: bytes.NewReader(file)}
		}
		var bs *blockstore.ReadOnly
		bs, err = blockstore.NewReadOnly(ra, nil, opts...)
		if err == nil {
			idx = bs.Index()
		}
		embedded = cs.Cont == "v2idx"
	case "st":
		var ra io.ReaderAt = bytes.NewReader(file)
		if srcKind == "at" {
			ra = drv.OnlyReaderAt{R: bytes.NewReader(file)}
		}
		var st storage.ReadableCar
		st, err = storage.OpenReadable(ra, opts...)
		if err == nil {
			idx = st.Index()
		}
		embedded = cs.Cont == "v2idx"
	}
	if cleanup != nil {
		defer cleanup()
	}
	tag := cs.API + ":" + cs.Cont
	if embedded {
		// the embedded index is taken as is: no size limit, no null-padding scan
		wantTooLarge = false
		if api != "ro" && api != "st" {
			wantNullErr = false
		}
	}
	if wantTooLarge || wantNullErr {
		x.Outcome("refused")
		if err == nil {
			x.Fail("c03:missing-error:"+tag, "index built without error; expected tooLarge=%v nullPaddingError=%v", wantTooLarge, wantNullErr)
			return
		}
		var tl *carv2.ErrCidTooLarge
		if wantTooLarge && !wantNullErr && !errors.As(err, &tl) {
			x.Fail("c03:wrong-error:"+tag, "expected ErrCidTooLarge, got %v", err)
		}
		return
	}
	if err != nil {
		x.Fail("c03:build-error:"+tag, "index generation fails on a valid archive: %v", err)
		return
	}
	// which matching rule does this index implement?
	digestOnly := true
	if _, ok := idx.(*index.MultihashIndexSorted); ok {
		digestOnly = false
	}
	// queries: every alphabet CID and an absent one
	var queries []kit.Blk
	for _, n := range kit.AlphaOrder {
		queries = append(queries, kit.B(n))
	}
	queries = append(queries, kit.Absent)
	for _, q := range queries {
		qi, _ := refcar.ParseCID(q.Raw)
		var exp []uint64
		for _, r := range want {
			if !bytes.Equal(r.Digest, qi.Digest) {
				continue
			}
			if !digestOnly && r.MhCode != qi.MhCode {
				continue
			}
			exp = append(exp, r.Offset)
		}
		var got []uint64
		err := idx.GetAll(q.Cid, func(o uint64) bool { got = append(got, o); return true })
		x.Transition(1)
		if len(exp) == 0 {
			if err != index.ErrNotFound || len(got) != 0 {
				x.Fail("c03:absent-not-notfound:"+tag, "GetAll(%s) for a key with no section: offsets %v err %v; want ErrNotFound", q.Name, got, err)
			}
			continue
		}
		if err != nil {
			x.Fail("c03:getall-error:"+tag, "GetAll(%s) error %v; want offsets %v", q.Name, err, exp)
			continue
		}
		if offsetsStr(got) != offsetsStr(exp) {
			x.Fail("c03:offsets:"+tag, "GetAll(%s) offsets %v want %v (payload-relative section starts)", q.Name, got, exp)
			continue
		}
		first, err := index.GetFirst(idx, q.Cid)
		if err != nil || !containsU(exp, first) {
			x.Fail("c03:getfirst:"+tag, "GetFirst(%s)=%d,%v want one of %v", q.Name, first, err, exp)
		}
		// the section at each reported offset decodes to a CID with that key
		for _, off := range got {
			sl, sn, err := refcar.Uvarint(payload[off:])
			if err != nil || off+uint64(sn)+sl > uint64(len(payload)) {
				x.Fail("c03:offset-not-section:"+tag, "offset %d for %s is not a section start", off, q.Name)
				continue
			}
			ci, err := refcar.ParseCID(payload[off+uint64(sn):])
			if err != nil || !bytes.Equal(ci.Digest, qi.Digest) || (!digestOnly && ci.MhCode != qi.MhCode) {
				x.Fail("c03:offset-wrong-key:"+tag, "section at offset %d does not carry the key of %s", off, q.Name)
			}
		}
	}
	if it, ok := idx.(index.IterableIndex); ok {
		var got []string
		err := it.ForEach(func(mh multihash.Multihash, off uint64) error {
			got = append(got, fmt.Sprintf("%x@%d", []byte(mh), off))
			return nil
		})
		var exp []string
		for _, r := range want {
			mh := append(refcar.PutUvarint(r.MhCode), refcar.PutUvarint(uint64(len(r.Digest)))...)
			exp = append(exp, fmt.Sprintf("%x@%d", append(mh, r.Digest...), r.Offset))
		}
		sort.Strings(got)
		sort.Strings(exp)
		if err != nil || strings.Join(got, ",") != strings.Join(exp, ",") {
			x.Fail("c03:foreach:"+tag, "ForEach yields {%s} err %v; want {%s}", strings.Join(got, ","), err, strings.Join(exp, ","))
		}
	}
	x.State(fmt.Sprintf("%x|%v|%v", file, cs.Kind, cs.StoreID))
	x.Outcome(fmt.Sprintf("records=%d", len(want)))
	dup := map[string]bool{}
	for _, r := range want {
		k := fmt.Sprintf("%x", r.Digest)
		if dup[k] {
			x.Nontrivial(fmt.Sprintf("%+v", cs))
		}
		dup[k] = true
	}
	if len(want) >= 2 {
		x.Nontrivial(fmt.Sprintf("%+v", cs))
	}
	_ = cid.Undef
}

func containsU(l []uint64, v uint64) bool {
	for _, e := range l {
		if e == v {
			return true
		}
	}
	return false
}

func genC03(tier string, emit func(any)) {
	names := []string{"a", "b", "a'", "a0", "ia", "i", "s", "t"}
	maxLen := 2
	if tier == "thorough" {
		names = append(names, "k", "i0", "e", "X", "ip1", "ip2")
		maxLen = 3
	}
	var seqs [][]string
	kit.Seqs(names, maxLen, func(s []string) { seqs = append(seqs, s) })
	seqs = append(seqs, []string{"a", "a", "a"}, []string{"a", "ia", "a'"}, []string{"X", "a"}, []string{"L128", "a", "L16384", "a"}, []string{"ip1", "ip2"}, []string{"ip1", "a", "ip2"})
	conts := []string{"v1", "v2", "v2pad", "v2idx", "v1null", "v2null"}
	for _, sq := range seqs {
		for _, cont := range conts {
			for _, kind := range []string{"mh", "sorted", "insertion"} {
				apis := []string{"gen-bytes", "gen-file", "gen-stream", "gen-onebyte", "gen-half", "gen-pipe"}
				if kind != "insertion" {
					apis = append(apis, "genfile-path", "rog-bytes", "rog-file", "rog-rs", "ro-at", "ro-bytes")
				} else {
					apis = append(apis, "st-at", "st-bytes")
				}
				for _, api := range apis {
					for _, sid := range []bool{false, true} {
						for _, z := range []bool{false, true} {
							if z && !(cont == "v1null" || cont == "v2null" || cont == "v1") {
								continue
							}
							for _, mc := range []uint64{0, 40} {
								if mc == 40 && tier != "thorough" && len(sq) > 1 && cont != "v1" {
									continue
								}
								emit(C03Case{Seq: sq, Cont: cont, Kind: kind, API: api, StoreID: sid, ZeroEOF: z, MaxCid: mc})
							}
						}
					}
				}
			}
		}
	}
}

func init() {
	kit.Register(&kit.Prop{
		ID:     "C03",
		Gen:    genC03,
		Run:    runC03,
		Decode: kit.DecodeAs[C03Case],
		Rule: "every payload (block sequences up to the bound incl. duplicates, equal digests under different hash functions/codecs, identity, mixed widths) laid out by the reference encoder as CARv1/CARv2 (padded, with embedded index, with null padding) x index kind x API and source kind " +
			"(GenerateIndex/LoadIndex over bytes.Reader, *os.File, plain stream, one-byte and half-buffer short-read streams, *os.File over a pipe; ReadOrGenerateIndex; NewReadOnly; OpenReadable) x StoreIdentityCIDs x ZeroLengthSectionAsEOF x MaxIndexCidSize; every alphabet CID is queried; non-trivial = >=2 records or a repeated digest",
		Bound: func(tier string) map[string]any {
			if tier == "thorough" {
				return map[string]any{"seq_len": 3, "alphabet": 12}
			}
			return map[string]any{"seq_len": 2, "alphabet": 8}
		},
		Assumptions: []string{"refcar layout is correct", "the insertion index is treated as digest-only (what GetAll implements; FindCid confirms the CID at each candidate)"},
	})
}
