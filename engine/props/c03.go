package props

import (
	"bufio"
	"bytes"
	"errors"
	"fmt"
	"io"
	"os"
	"path/filepath"
	"sort"
	"strings"
	"syscall"
	"testing/iotest"

	"github.com/ipfs/go-cid"
	carv2 "github.com/ipld/go-car/v2"
	"github.com/ipld/go-car/v2/blockstore"
	"github.com/ipld/go-car/v2/index"
	"github.com/ipld/go-car/v2/storage"
	"github.com/multiformats/go-multihash"

	"verif/drv"
	"verif/kit"
	"verif/refcar"
)

type C03Case struct {
	Seq     []string `json:"seq"`
	Cont    string   `json:"cont"` // v1, v1null, v2, v2pad, v2bigpad, v2idx, v2null, v2idxnull
	Kind    string   `json:"kind"` // sorted, mh (default codec), mhx (UseIndexCodec(mh) given explicitly), insertion
	API     string   `json:"api"`  // gen-<src> genfile-path rog-<src> ro-<src> st-<src>
	StoreID bool     `json:"storeid,omitempty"`
	ZeroEOF bool     `json:"zeroeof,omitempty"`
	MaxCid  uint64   `json:"maxcid,omitempty"`
	Roots   string   `json:"roots,omitempty"` // "" = one root (a); empty, ab, r4
}

type rsOnly struct{ rs io.ReadSeeker }

func (r rsOnly) Read(p []byte) (int, error)         { return r.rs.Read(p) }
func (r rsOnly) Seek(o int64, w int) (int64, error) { return r.rs.Seek(o, w) }

// halfRS is a seekable source whose Read returns short reads (half of the buffer).
type halfRS struct {
	r io.Reader // iotest.HalfReader over s (stateless: it only shortens the buffer)
	s io.Seeker
}

func (h halfRS) Read(p []byte) (int, error)         { return h.r.Read(p) }
func (h halfRS) Seek(o int64, w int) (int64, error) { return h.s.Seek(o, w) }

// c03Extra are blocks used by this check only (not part of the shared alphabet).
var c03Extra = map[string]kit.Blk{}
var c03ExtraOrder []string

func c03Add(name string, raw, data []byte) {
	c, err := cid.Cast(raw)
	if err != nil {
		panic(fmt.Sprintf("c03 block %s: %v", name, err))
	}
	if !bytes.Equal(c.Bytes(), raw) {
		panic("c03 block " + name + ": go-cid re-encodes differently")
	}
	c03Extra[name] = kit.Blk{Name: name, Raw: raw, Cid: c, Data: data}
	c03ExtraOrder = append(c03ExtraOrder, name)
}

func init() {
	aData := []byte("aaa")
	da, _ := refcar.Digest(refcar.MhSha256, aData)
	// sha2-256("aaa") truncated to 20 bytes: a strict prefix of a's digest under the same code
	c03Add("ta", refcar.CIDv1(refcar.CodecRaw, refcar.MhSha256, da[:20]), aData)
	// identity digest that is a strict prefix of ip1's and ip2's digests
	c03Add("ip0", refcar.CIDv1(refcar.CodecRaw, refcar.MhIdentity, []byte("prefix--prefix--")), []byte("prefix--prefix--"))
	// a's digest under another non-identity 32-byte code. A real collision cannot be constructed, so the
	// data does not hash to the CID; index generation never hashes data (see Assumptions).
	c03Add("ka", refcar.CIDv1(refcar.CodecRaw, refcar.MhBlake2b256, da), aData)
	// identity CIDs whose encoded length is exactly DefaultMaxIndexCidSize (2048) and one more
	for _, n := range []int{2048, 2049} {
		d := make([]byte, n-5) // 01 55 00 <2-byte varint> digest
		for i := range d {
			d[i] = byte(n) + byte(i*11)
		}
		raw := refcar.CIDv1(refcar.CodecRaw, refcar.MhIdentity, d)
		if len(raw) != n {
			panic("c03: X block length")
		}
		c03Add(fmt.Sprintf("X%d", n), raw, d)
	}
}

func c03Blk(name string) kit.Blk {
	if b, ok := c03Extra[name]; ok {
		return b
	}
	return kit.B(name)
}

// c03Roots resolves the root shape of the header. r4 makes the header longer than 127 bytes
// (2-byte length varint) and mixes CID lengths.
func c03Roots(name string) [][]byte {
	var names []string
	switch name {
	case "", "a":
		names = []string{"a"}
	case "empty":
		names = []string{}
	case "ab":
		names = []string{"a", "b"}
	case "r4":
		names = []string{"a", "s", "a0", "b"}
	default:
		panic("unknown root shape " + name)
	}
	out := [][]byte{}
	for _, n := range names {
		out = append(out, kit.B(n).Raw)
	}
	return out
}

// buildContainer lays the blocks out with refcar. embedded = records written as the embedded index.
func buildContainer(cont string, rootRaws [][]byte, blks []refcar.Block, storeID bool, codec uint64) (file []byte, payload []byte) {
	payload = refcar.EncodeV1(rootRaws, false, blks)
	embeddedIndex := func() []byte {
		p, err := refcar.DecodePayload(payload, false, false)
		if err != nil {
			panic(err)
		}
		return refcar.EncodeIndex(codec, refcar.RecordsOf(p, storeID))
	}
	switch cont {
	case "v1":
		return payload, payload
	case "v1null":
		return append(append([]byte{}, payload...), make([]byte, 9)...), payload
	case "v2":
		return refcar.EncodeV2(payload, 0, 0, nil, false), payload
	case "v2pad":
		return refcar.EncodeV2(payload, 5, 0, nil, false), payload
	case "v2bigpad":
		// larger than any copy buffer used to skip the padding on a stream (several chunks)
		return refcar.EncodeV2(payload, 40001, 0, nil, false), payload
	case "v2null":
		padded := append(append([]byte{}, payload...), make([]byte, 4)...)
		return refcar.EncodeV2(padded, 3, 0, nil, false), payload
	case "v2idx":
		return refcar.EncodeV2(payload, 5, 3, embeddedIndex(), storeID), payload
	case "v2idxnull":
		// null padding inside the data window, followed by index padding and an index
		padded := append(append([]byte{}, payload...), make([]byte, 4)...)
		return refcar.EncodeV2(padded, 5, 3, embeddedIndex(), storeID), payload
	}
	panic("unknown container " + cont)
}

func offsetsStr(l []uint64) string {
	l = append([]uint64{}, l...)
	sort.Slice(l, func(i, j int) bool { return l[i] < l[j] })
	return fmt.Sprint(l)
}

var errC03Abort = errors.New("c03: abort iteration")

// ioLike tells whether err is an I/O failure rather than a refusal of the archive's content.
func ioLike(err error) bool {
	root := err
	for u := errors.Unwrap(root); u != nil; u = errors.Unwrap(root) {
		root = u
	}
	// the stream wrapper's own failures carry no sentinel: match its messages on the innermost error only
	return errors.Is(err, io.EOF) || errors.Is(err, io.ErrUnexpectedEOF) || errors.Is(err, syscall.ESPIPE) ||
		errors.Is(err, io.ErrShortBuffer) || errors.Is(err, io.ErrNoProgress) || errors.Is(err, os.ErrClosed) ||
		strings.HasPrefix(root.Error(), "unsupported rewind") || strings.HasPrefix(root.Error(), "unsupported whence")
}

func runC03(c any, x *kit.Ctx) {
	cs := c.(C03Case)
	rootRaws := c03Roots(cs.Roots)
	blks := make([]kit.Blk, len(cs.Seq))
	for i, n := range cs.Seq {
		blks[i] = c03Blk(n)
	}
	var rb []refcar.Block
	for _, b := range blks {
		rb = append(rb, b.Ref())
	}
	o := drv.Opts{StoreID: cs.StoreID, ZeroEOF: cs.ZeroEOF, MaxCid: cs.MaxCid}
	switch cs.Kind {
	case "sorted":
		o.Codec = "sorted"
	case "mhx":
		o.Codec = "mh"
	}
	codecNumber := codecNum(o)
	file, payload := buildContainer(cs.Cont, rootRaws, rb, cs.StoreID, codecNumber)
	opts := o.List()
	// hashes are verified except for the one block that stands for a cross-function collision
	verify := true
	for _, n := range cs.Seq {
		if n == "ka" {
			verify = false
		}
	}
	pl, err := refcar.DecodePayload(payload, false, verify)
	if err != nil {
		panic(err)
	}
	want := refcar.RecordsOf(pl, cs.StoreID)
	maxCid := cs.MaxCid
	if maxCid == 0 {
		maxCid = 2048
	}
	wantTooLarge := false
	overLens := map[uint64]bool{}
	for _, s := range pl.Sections {
		if s.Info.MhCode == refcar.MhIdentity && !cs.StoreID {
			continue
		}
		if uint64(len(s.Cid)) > maxCid {
			wantTooLarge = true
			overLens[uint64(len(s.Cid))] = true
		}
	}
	nullPadded := cs.Cont == "v1null" || cs.Cont == "v2null" || cs.Cont == "v2idxnull"
	wantNullErr := nullPadded && !cs.ZeroEOF

	// build the index through the chosen API
	var idx index.Index
	var src io.Reader
	var cleanups []func()
	defer func() {
		for i := len(cleanups) - 1; i >= 0; i-- {
			cleanups[i]()
		}
	}()
	writeFile := func(name string) string {
		p := filepath.Join(x.Dir, name)
		if err := os.WriteFile(p, file, 0o644); err != nil {
			panic(err)
		}
		cleanups = append(cleanups, func() { os.Remove(p) })
		return p
	}
	openFile := func(name string) *os.File {
		f, err := os.Open(writeFile(name))
		if err != nil {
			panic(err)
		}
		cleanups = append(cleanups, func() { f.Close() })
		return f
	}
	mkSrc := func(kind string) {
		switch kind {
		case "bytes":
			src = bytes.NewReader(file)
		case "stream":
			src = drv.PlainReader{R: bytes.NewReader(file)}
		case "pipe":
			// an *os.File over a pipe: has a Seek method, is not seekable
			pr, pw, err := os.Pipe()
			if err != nil {
				panic(err)
			}
			// the writer blocks once the pipe is full and is released by pr.Close() when the scan stops early
			go func() { pw.Write(file); pw.Close() }()
			src = pr
			cleanups = append(cleanups, func() { pr.Close() })
		case "onebyte":
			src = iotest.OneByteReader(bytes.NewReader(file)) // short reads: an environment deviation
		case "half":
			src = iotest.HalfReader(bytes.NewReader(file))
		case "bufio":
			// Read + ReadByte (io.ByteReader) without Seek
			src = bufio.NewReader(drv.PlainReader{R: bytes.NewReader(file)})
		case "bufio16":
			src = bufio.NewReaderSize(drv.PlainReader{R: bytes.NewReader(file)}, 16)
		case "buffer":
			src = bytes.NewBuffer(append([]byte{}, file...))
		case "dataerr":
			// the last Read returns n>0 together with io.EOF
			src = iotest.DataErrReader(drv.PlainReader{R: bytes.NewReader(file)})
		case "rs":
			src = rsOnly{bytes.NewReader(file)}
		case "rshalf":
			// seekable, short reads
			br := bytes.NewReader(file)
			src = halfRS{r: iotest.HalfReader(br), s: br}
		case "file":
			src = openFile("c03.car")
		default:
			panic("unknown source kind " + kind)
		}
	}
	mkAt := func(kind string) io.ReaderAt {
		switch kind {
		case "at":
			return drv.OnlyReaderAt{R: bytes.NewReader(file)}
		case "bytes":
			return bytes.NewReader(file)
		case "file":
			return openFile("c03-at.car")
		}
		panic("unknown ReaderAt kind " + kind)
	}
	embedded := false // index came from the file rather than from a scan
	hasEmbedded := cs.Cont == "v2idx" || cs.Cont == "v2idxnull"
	api, srcKind, _ := strings.Cut(cs.API, "-")
	x.Eval(1)
	x.Transition(len(blks) + 1)
	switch api {
	case "gen":
		mkSrc(srcKind)
		if cs.Kind == "insertion" {
			ii := index.NewInsertionIndex()
			err = carv2.LoadIndex(ii, src, opts...)
			idx = ii
		} else {
			idx, err = carv2.GenerateIndex(src, opts...)
		}
	case "genfile":
		// GenerateIndexFromFile(path)
		pth := writeFile("c03-gf.car")
		if cs.Kind == "insertion" {
			err = errors.New("n/a")
		} else {
			idx, err = carv2.GenerateIndexFromFile(pth, opts...)
		}
	case "rog":
		mkSrc(srcKind)
		idx, err = carv2.ReadOrGenerateIndex(src.(io.ReadSeeker), opts...)
		embedded = hasEmbedded
	case "ro":
		var bs *blockstore.ReadOnly
		if srcKind == "mmap" {
			bs, err = blockstore.OpenReadOnly(writeFile("c03-mm.car"), opts...)
		} else {
			bs, err = blockstore.NewReadOnly(mkAt(srcKind), nil, opts...)
		}
		if err == nil {
			idx = bs.Index()
			cleanups = append(cleanups, func() { bs.Close() })
		}
		embedded = hasEmbedded
	case "rw":
		// the index a writable store rebuilds when it RESUMES the file (store.Resume rescans the sections
		// with its own copy of the indexing loop): blockstore.OpenReadWrite / storage.OpenReadableWritable
		if wantTooLarge {
			x.Outcome("rw-skipped")
			return // resuming does not apply MaxIndexCidSize to what is already in the file
		}
		ropts := append([]carv2.Option{}, opts...)
		switch cs.Cont {
		case "v1", "v1null":
			ropts = append(ropts, carv2.WriteAsCarV1(true))
		case "v2pad", "v2idx", "v2idxnull":
			ropts = append(ropts, carv2.UseDataPadding(5))
		case "v2bigpad":
			ropts = append(ropts, carv2.UseDataPadding(40001))
		case "v2null":
			ropts = append(ropts, carv2.UseDataPadding(3))
		}
		var rcids []cid.Cid
		for _, r := range rootRaws {
			c, cerr := cid.Cast(r)
			if cerr != nil {
				panic(cerr)
			}
			rcids = append(rcids, c)
		}
		pth := writeFile("c03-rw.car")
		if srcKind == "bs" {
			var bs *blockstore.ReadWrite
			bs, err = blockstore.OpenReadWrite(pth, rcids, ropts...)
			if err == nil {
				idx = bs.Index()
				cleanups = append(cleanups, func() { bs.Discard() })
			}
		} else {
			f, ferr := os.OpenFile(pth, os.O_RDWR, 0o644)
			if ferr != nil {
				panic(ferr)
			}
			cleanups = append(cleanups, func() { f.Close() })
			var st *storage.StorageCar
			st, err = storage.OpenReadableWritable(f, rcids, ropts...)
			if err == nil {
				idx = st.Index()
			}
		}
	case "st":
		var st storage.ReadableCar
		st, err = storage.OpenReadable(mkAt(srcKind), opts...)
		if err == nil {
			idx = st.Index()
		}
		embedded = hasEmbedded
	default:
		panic("unknown api " + cs.API)
	}
	tag := cs.API + ":" + cs.Cont
	if embedded {
		// the embedded index is taken as is: no size limit, no null-padding scan
		wantTooLarge = false
		wantNullErr = false
	}
	if wantTooLarge || wantNullErr {
		x.Outcome("refused")
		if err == nil {
			x.Fail("c03:missing-error:"+tag, "index built without error; expected tooLarge=%v nullPaddingError=%v", wantTooLarge, wantNullErr)
			return
		}
		var tl *carv2.ErrCidTooLarge
		isTL := errors.As(err, &tl)
		if wantTooLarge && !wantNullErr && !isTL {
			x.Fail("c03:wrong-error:"+tag, "expected ErrCidTooLarge, got %v", err)
		}
		if isTL {
			if !wantTooLarge {
				x.Fail("c03:wrong-error:"+tag, "ErrCidTooLarge (%v) although no indexed CID exceeds %d bytes", err, maxCid)
			} else if tl.MaxSize != maxCid || !overLens[tl.CurrentSize] {
				x.Fail("c03:toolarge-fields:"+tag, "ErrCidTooLarge{MaxSize:%d CurrentSize:%d}; the limit is %d and the over-long indexed CIDs have lengths %v", tl.MaxSize, tl.CurrentSize, maxCid, overLens)
			}
		} else if ioLike(err) {
			// the refusal has to be about the archive's content (null padding / CID size), not an I/O failure
			x.Fail("c03:refusal-is-io-error:"+tag, "expected a refusal (tooLarge=%v nullPadding=%v), got an I/O error: %v", wantTooLarge, wantNullErr, err)
		}
		return
	}
	if err != nil {
		x.Fail("c03:build-error:"+tag, "index generation fails on a valid archive: %v", err)
		return
	}
	// which index was asked for, and which matching rule goes with it?
	var wantCodec uint64
	wantInsertion := false
	switch {
	case embedded:
		wantCodec = codecNumber
	case cs.Kind == "insertion":
		wantInsertion = true
	case cs.Kind == "sorted":
		wantCodec = refcar.CodecIndexSorted
	default:
		wantCodec = refcar.CodecMhIndexSorted
	}
	ii, isInsertion := idx.(*index.InsertionIndex)
	if api == "st" && wantInsertion && !isInsertion {
		// which index storage.OpenReadable builds for an unindexed archive is not documented
		wantInsertion = false
		wantCodec = uint64(idx.Codec())
		if wantCodec != refcar.CodecIndexSorted && wantCodec != refcar.CodecMhIndexSorted {
			x.Fail("c03:codec:"+tag, "index is a %T (codec 0x%x)", idx, wantCodec)
		}
	}
	if wantInsertion {
		if !isInsertion {
			x.Fail("c03:codec:"+tag, "index is a %T (codec 0x%x); an insertion index was asked for", idx, uint64(idx.Codec()))
		}
	} else if uint64(idx.Codec()) != wantCodec || isInsertion {
		x.Fail("c03:codec:"+tag, "index is a %T with codec 0x%x; want codec 0x%x (embedded=%v)", idx, uint64(idx.Codec()), wantCodec, embedded)
	}
	digestOnly := wantInsertion || wantCodec == refcar.CodecIndexSorted

	// queries: every alphabet CID, this check's extra CIDs, every block of the archive and an absent one
	var queries []kit.Blk
	seenQ := map[string]bool{}
	addQ := func(b kit.Blk) {
		if !seenQ[string(b.Raw)] {
			seenQ[string(b.Raw)] = true
			queries = append(queries, b)
		}
	}
	for _, n := range kit.AlphaOrder {
		addQ(kit.B(n))
	}
	for _, n := range c03ExtraOrder {
		addQ(c03Extra[n])
	}
	for _, b := range blks {
		addQ(b)
	}
	addQ(kit.Absent)
	for _, q := range queries {
		qi, _ := refcar.ParseCID(q.Raw)
		var exp, expMh, expDg []uint64
		for _, r := range want {
			if !bytes.Equal(r.Digest, qi.Digest) {
				continue
			}
			expDg = append(expDg, r.Offset)
			if r.MhCode == qi.MhCode {
				expMh = append(expMh, r.Offset)
			}
			if !digestOnly && r.MhCode != qi.MhCode {
				continue
			}
			exp = append(exp, r.Offset)
		}
		var got []uint64
		err := idx.GetAll(q.Cid, func(o uint64) bool { got = append(got, o); return true })
		x.Transition(1)
		if isInsertion && len(exp) != len(expMh) {
			// the insertion index has no codec of the statement: matching by digest (current) and by
			// multihash (the statement's general rule) are both accepted
			if (len(expMh) == 0 && len(got) == 0 && errors.Is(err, index.ErrNotFound)) || (len(expMh) > 0 && err == nil && offsetsStr(got) == offsetsStr(expMh)) {
				exp = expMh
			}
		}
		// the section at each reported offset decodes to a CID with that key (checked on what
		// go-car reported, before and independently of the comparison with the reference scan)
		for _, off := range got {
			if off >= uint64(len(payload)) {
				x.Fail("c03:offset-not-section:"+tag, "offset %d for %s is outside the %d-byte payload", off, q.Name, len(payload))
				continue
			}
			sl, sn, err := refcar.Uvarint(payload[off:])
			if err != nil || sl == 0 || sl > uint64(len(payload))-off-uint64(sn) {
				x.Fail("c03:offset-not-section:"+tag, "offset %d for %s is not a section start", off, q.Name)
				continue
			}
			ci, err := refcar.ParseCID(payload[off+uint64(sn) : off+uint64(sn)+sl])
			if err != nil || !bytes.Equal(ci.Digest, qi.Digest) || (!digestOnly && ci.MhCode != qi.MhCode) {
				x.Fail("c03:offset-wrong-key:"+tag, "section at offset %d does not carry the key of %s", off, q.Name)
			}
		}
		if len(exp) == 0 {
			if !errors.Is(err, index.ErrNotFound) || len(got) != 0 {
				x.Fail("c03:absent-not-notfound:"+tag, "GetAll(%s) for a key with no section: offsets %v err %v; want ErrNotFound", q.Name, got, err)
			}
			if isInsertion {
				c03InsertionGet(x, tag, ii, q, expDg, expMh)
			}
			continue
		}
		if err != nil {
			x.Fail("c03:getall-error:"+tag, "GetAll(%s) error %v; want offsets %v", q.Name, err, exp)
			continue
		}
		if offsetsStr(got) != offsetsStr(exp) {
			x.Fail("c03:offsets:"+tag, "GetAll(%s) offsets %v want %v (payload-relative section starts)", q.Name, got, exp)
			continue
		}
		first, err := index.GetFirst(idx, q.Cid)
		if err != nil || !containsU(exp, first) {
			x.Fail("c03:getfirst:"+tag, "GetFirst(%s)=%d,%v want one of %v", q.Name, first, err, exp)
		}
		// GetAll stops when the callback returns false: after the 1st, 2nd, ... match
		for stopAt := 1; stopAt <= len(exp) && stopAt <= 3; stopAt++ {
			var part []uint64
			err := idx.GetAll(q.Cid, func(o uint64) bool { part = append(part, o); return len(part) < stopAt })
			x.Transition(1)
			// exactly stopAt callbacks, no error, distinct offsets of the expected set; in which order an
			// index reports its matches, and whether two calls agree on it, is left open
			ok := err == nil && len(part) == stopAt
			seenOff := map[uint64]bool{}
			for _, o := range part {
				if !containsU(exp, o) || seenOff[o] {
					ok = false
				}
				seenOff[o] = true
			}
			if !ok {
				x.Fail("c03:getall-stop:"+tag, "GetAll(%s) with a callback returning false at match %d: callbacks %v err %v; want %d distinct offsets out of %v and no error", q.Name, stopAt, part, err, stopAt, exp)
			}
		}
		if isInsertion {
			c03InsertionGet(x, tag, ii, q, expDg, expMh)
		}
	}
	if it, ok := idx.(index.IterableIndex); ok {
		// a digest-only codec index cannot know the hash function: its entries are compared by digest
		byDigest := digestOnly && !isInsertion
		entry := func(mh multihash.Multihash, off uint64) string {
			if byDigest {
				if d, err := multihash.Decode(mh); err == nil {
					return fmt.Sprintf("%x@%d", d.Digest, off)
				}
			}
			return fmt.Sprintf("%x@%d", []byte(mh), off)
		}
		var got []string
		err := it.ForEach(func(mh multihash.Multihash, off uint64) error {
			got = append(got, entry(mh, off))
			return nil
		})
		var exp []string
		for _, r := range want {
			if byDigest {
				exp = append(exp, fmt.Sprintf("%x@%d", r.Digest, r.Offset))
				continue
			}
			mh := append(refcar.PutUvarint(r.MhCode), refcar.PutUvarint(uint64(len(r.Digest)))...)
			exp = append(exp, fmt.Sprintf("%x@%d", append(mh, r.Digest...), r.Offset))
		}
		sort.Strings(got)
		sort.Strings(exp)
		if err != nil || strings.Join(got, ",") != strings.Join(exp, ",") {
			x.Fail("c03:foreach:"+tag, "ForEach yields {%s} err %v; want {%s}", strings.Join(got, ","), err, strings.Join(exp, ","))
		}
		// a callback error aborts the iteration and is returned
		for stopAt := 1; stopAt <= len(want) && stopAt <= 2; stopAt++ {
			var part []string
			err := it.ForEach(func(mh multihash.Multihash, off uint64) error {
				part = append(part, entry(mh, off))
				if len(part) >= stopAt {
					return errC03Abort
				}
				return nil
			})
			// exactly stopAt calls, the callback's error, entries out of the expected multiset (the order of
			// the calls is not part of the statement)
			ok := errors.Is(err, errC03Abort) && len(part) == stopAt
			left := map[string]int{}
			for _, e := range exp {
				left[e]++
			}
			for _, e := range part {
				if left[e] == 0 {
					ok = false
				}
				left[e]--
			}
			if !ok {
				x.Fail("c03:foreach-abort:"+tag, "ForEach with a callback failing at call %d: calls %v err %v; want %d entries out of %v and the callback's error", stopAt, part, err, stopAt, exp)
			}
		}
	}
	if isInsertion {
		// the insertion index keeps whole CIDs
		var got, exp []string
		err := ii.ForEachCid(func(c cid.Cid, off uint64) error {
			got = append(got, fmt.Sprintf("%x@%d", c.Bytes(), off))
			return nil
		})
		for _, s := range pl.Sections {
			if s.Info.MhCode == refcar.MhIdentity && !cs.StoreID {
				continue
			}
			exp = append(exp, fmt.Sprintf("%x@%d", s.Cid, s.Offset))
		}
		sort.Strings(got)
		sort.Strings(exp)
		if err != nil || strings.Join(got, ",") != strings.Join(exp, ",") {
			x.Fail("c03:foreachcid:"+tag, "ForEachCid yields {%s} err %v; want {%s}", strings.Join(got, ","), err, strings.Join(exp, ","))
		}
	}
	x.State(fmt.Sprintf("%x|%v|%v", file, cs.Kind, cs.StoreID))
	x.Outcome(fmt.Sprintf("records=%d", len(want)))
	x.Count("api:"+api+"-"+srcKind, 1)
	x.Count("cont:"+cs.Cont, 1)
	dup := map[string]bool{}
	for _, r := range want {
		k := fmt.Sprintf("%x", r.Digest)
		if dup[k] {
			x.Nontrivial(fmt.Sprintf("%+v", cs))
		}
		dup[k] = true
	}
	if len(want) >= 2 {
		x.Nontrivial(fmt.Sprintf("%+v", cs))
	}
}

// c03InsertionGet checks InsertionIndex.Get (one offset per key) under either matching rule: by digest
// (expDg, a superset) or by multihash (expMh). Get and GetAll need not follow the same rule.
func c03InsertionGet(x *kit.Ctx, tag string, ii *index.InsertionIndex, q kit.Blk, expDg, expMh []uint64) {
	off, err := ii.Get(q.Cid)
	switch {
	case errors.Is(err, index.ErrNotFound):
		if len(expMh) != 0 {
			x.Fail("c03:insertion-get:"+tag, "InsertionIndex.Get(%s): not found; sections with that multihash begin at %v", q.Name, expMh)
		}
	case err != nil || !containsU(expDg, off):
		x.Fail("c03:insertion-get:"+tag, "InsertionIndex.Get(%s)=%d,%v want one of %v (or ErrNotFound if there is none)", q.Name, off, err, expDg)
	}
}

func containsU(l []uint64, v uint64) bool {
	for _, e := range l {
		if e == v {
			return true
		}
	}
	return false
}

// ---------------------------------------------------------------- enumeration

var (
	c03GenCore  = []string{"gen-bytes", "gen-file", "gen-stream", "gen-onebyte", "gen-half", "gen-pipe"}
	c03GenExtra = []string{"gen-bufio", "gen-bufio16", "gen-buffer", "gen-dataerr", "gen-rs", "gen-rshalf"}
	// codec-carrying entry points (not for kind=insertion)
	c03CodecCore  = []string{"genfile-path", "rog-bytes", "rog-file", "rog-rs", "ro-at", "ro-bytes"}
	c03CodecExtra = []string{"rog-rshalf", "ro-file", "ro-mmap"}
	// insertion-index entry points besides LoadIndex
	c03InsCore  = []string{"st-at", "st-bytes"}
	c03InsExtra = []string{"st-file"}
)

// c03APIs lists the entry points for an index kind: the original set, the added set or both.
func c03APIs(kind string, core, extra bool) []string {
	var out []string
	if core {
		out = append(out, c03GenCore...)
	}
	if extra {
		out = append(out, c03GenExtra...)
	}
	if kind != "insertion" {
		if core {
			out = append(out, c03CodecCore...)
		}
		if extra {
			out = append(out, c03CodecExtra...)
		}
	} else {
		if core {
			out = append(out, c03InsCore...)
		}
		if extra {
			out = append(out, c03InsExtra...)
		}
	}
	return out
}

var (
	c03ContsCore = []string{"v1", "v2", "v2pad", "v2idx", "v1null", "v2null"}
	c03KindsCore = []string{"mh", "sorted", "insertion"}
	c03KindsAll  = []string{"mh", "sorted", "insertion", "mhx"}
	c03Bools     = []bool{false, true}
)

// c03ManySeq is a 41-section archive of distinct 32-byte digests (one bucket, well above the
// insertion-sort threshold of sort.Sort) with one element repeated in the middle.
func c03ManySeq() []string {
	many := kit.ManyNames(40)
	out := append([]string{}, many[:20]...)
	out = append(out, many[7])
	return append(out, many[20:]...)
}

func genC03(tier string, emit func(any)) {
	thorough := tier == "thorough"
	nullCont := func(cont string) bool { return cont == "v1null" || cont == "v2null" || cont == "v2idxnull" }
	// v2idxnull is only meaningful for the re-generating entry points (an embedded index is taken as is)
	apiOK := func(cont, api string) bool {
		return cont != "v2idxnull" || strings.HasPrefix(api, "gen")
	}

	// ---- M0: the original matrix (kept as it was: sequences x containers x kinds x original entry points
	// x StoreIdentityCIDs x ZeroLengthSectionAsEOF (where it matters) x MaxIndexCidSize {default,40})
	names := []string{"a", "b", "a'", "a0", "ia", "i", "s", "t"}
	maxLen := 2
	if thorough {
		names = append(names, "k", "i0", "e", "X", "ip1", "ip2")
		maxLen = 3
	}
	var seqs [][]string
	kit.Seqs(names, maxLen, func(s []string) { seqs = append(seqs, s) })
	special := [][]string{{"a", "a", "a"}, {"a", "ia", "a'"}, {"X", "a"}, {"L128", "a", "L16384", "a"}, {"ip1", "ip2"}, {"ip1", "a", "ip2"},
		// sections that carry no block data (nothing to skip after the CID), first, in the middle, last, repeated
		{"e", "a"}, {"a", "e", "b"}, {"a", "e"}, {"e", "e", "a"}, {"i0", "a"}, {"a", "i0", "e", "b"}}
	seqs = append(seqs, special...)
	for _, sq := range seqs {
		for _, cont := range c03ContsCore {
			for _, kind := range c03KindsCore {
				for _, api := range c03APIs(kind, true, false) {
					for _, sid := range c03Bools {
						for _, z := range c03Bools {
							if z && !(cont == "v1null" || cont == "v2null" || cont == "v1") {
								continue
							}
							for _, mc := range []uint64{0, 40} {
								if mc == 40 && !thorough && len(sq) > 1 && cont != "v1" {
									continue
								}
								emit(C03Case{Seq: sq, Cont: cont, Kind: kind, API: api, StoreID: sid, ZeroEOF: z, MaxCid: mc})
							}
						}
					}
				}
			}
		}
	}

	// ---- M1: ZeroLengthSectionAsEOF=true on the containers M0 leaves out (the option must not change
	// anything for an archive without null padding)
	for _, sq := range seqs {
		if len(sq) > 2 {
			continue
		}
		for _, cont := range []string{"v2", "v2pad", "v2idx"} {
			for _, kind := range c03KindsCore {
				for _, api := range c03APIs(kind, true, false) {
					for _, sid := range c03Bools {
						emit(C03Case{Seq: sq, Cont: cont, Kind: kind, API: api, StoreID: sid, ZeroEOF: true})
					}
				}
			}
		}
	}

	// ---- M2: the added entry points / source kinds, the explicit UseIndexCodec(mh) and the added
	// containers (v2bigpad, v2idxnull).
	// sequences: all up to length 2 over the M0 alphabet + the prefix/collision blocks; in the thorough
	// tier also length 3 over M0's alphabet with a reduced option matrix (see below).
	names2 := append(append([]string{}, names...), "ta", "ip0", "ka")
	len2 := 1
	if thorough {
		len2 = 2
	}
	var seqs2 [][]string
	kit.Seqs(names2, len2, func(s []string) { seqs2 = append(seqs2, s) })
	if !thorough {
		// quick: pairs over the blocks that interact (same digest, prefix digests, other code)
		kit.Seqs([]string{"a", "ta", "ka", "ia", "ip0", "ip1"}, 2, func(s []string) {
			if len(s) == 2 {
				seqs2 = append(seqs2, s)
			}
		})
	}
	seqs2 = append(seqs2, special...)
	contsAll := []string{"v1", "v2", "v2pad", "v2idx", "v1null", "v2null", "v2bigpad", "v2idxnull"}
	for _, sq := range seqs2 {
		for _, cont := range contsAll {
			newCont := cont == "v2bigpad" || cont == "v2idxnull"
			for _, kind := range c03KindsAll {
				// what M0/M1 already ran is not repeated: the original entry points are only crossed
				// with what is new here (a new block, a new container, the explicit codec)
				newSeq := false
				for _, n := range sq {
					if n == "ta" || n == "ip0" || n == "ka" {
						newSeq = true
					}
				}
				core := newSeq || newCont || kind == "mhx"
				k := kind
				for _, api := range c03APIs(k, core, true) {
					if !apiOK(cont, api) {
						continue
					}
					for _, sid := range c03Bools {
						for _, z := range c03Bools {
							if z && !thorough && !(nullCont(cont) || cont == "v1") {
								continue
							}
							for _, mc := range []uint64{0, 40} {
								if mc == 40 && !thorough && len(sq) > 1 && cont != "v1" {
									continue
								}
								emit(C03Case{Seq: sq, Cont: cont, Kind: kind, API: api, StoreID: sid, ZeroEOF: z, MaxCid: mc})
							}
						}
					}
				}
			}
		}
	}
	// triples over the blocks with equal / prefix-related digests (same code, other code, identity)
	var seqs3 [][]string
	trip := []string{"a", "ta", "ka", "ia"}
	if thorough {
		trip = []string{"a", "ta", "ka", "ia", "ip0", "ip1", "ip2"}
	}
	kit.Seqs(trip, 3, func(s []string) {
		if len(s) == 3 {
			seqs3 = append(seqs3, s)
		}
	})
	for _, sq := range seqs3 {
		for _, cont := range []string{"v1", "v2pad", "v2idx"} {
			for _, kind := range c03KindsCore {
				for _, api := range c03APIs(kind, true, thorough) {
					for _, sid := range c03Bools {
						emit(C03Case{Seq: sq, Cont: cont, Kind: kind, API: api, StoreID: sid})
					}
				}
			}
		}
	}
	if thorough {
		// length-3 sequences of M0 through the added entry points: default limits, no ZeroEOF
		for _, sq := range seqs {
			if len(sq) != 3 {
				continue
			}
			for _, cont := range []string{"v1", "v2pad", "v2idx", "v2null"} {
				for _, kind := range c03KindsCore {
					for _, api := range c03APIs(kind, false, true) {
						for _, sid := range c03Bools {
							emit(C03Case{Seq: sq, Cont: cont, Kind: kind, API: api, StoreID: sid, ZeroEOF: nullCont(cont)})
						}
					}
				}
			}
		}
	}

	// ---- M3: header shapes (no root, two roots, four roots = header longer than 127 bytes)
	var seqsR [][]string
	lenR := 1
	if thorough {
		lenR = 2
	}
	kit.Seqs([]string{"a", "a0", "ia", "i", "s", "t"}, lenR, func(s []string) { seqsR = append(seqsR, s) })
	seqsR = append(seqsR, []string{"a", "b"}, []string{"a", "ia", "a'"}, []string{"L128", "a", "L16384", "a"})
	for _, roots := range []string{"empty", "ab", "r4"} {
		for _, sq := range seqsR {
			for _, cont := range contsAll {
				for _, kind := range c03KindsCore {
					for _, api := range c03APIs(kind, true, true) {
						if !apiOK(cont, api) {
							continue
						}
						for _, sid := range c03Bools {
							emit(C03Case{Seq: sq, Cont: cont, Kind: kind, API: api, StoreID: sid, ZeroEOF: nullCont(cont), Roots: roots})
							if nullCont(cont) && thorough {
								emit(C03Case{Seq: sq, Cont: cont, Kind: kind, API: api, StoreID: sid, Roots: roots})
							}
						}
					}
				}
			}
		}
	}

	// ---- M4: MaxIndexCidSize at / one below the CID lengths 36 (a, a', ia) and 34 (a0), and the default
	// limit against identity CIDs of 2048 and 2049 bytes
	var seqsM [][]string
	kit.Seqs([]string{"a", "a0", "ia", "t", "i"}, 2, func(s []string) { seqsM = append(seqsM, s) })
	contsM := []string{"v1", "v2pad", "v2idx", "v1null"}
	if thorough {
		contsM = contsAll
	}
	for _, sq := range seqsM {
		for _, cont := range contsM {
			for _, kind := range c03KindsCore {
				for _, api := range c03APIs(kind, true, thorough) {
					if !apiOK(cont, api) {
						continue
					}
					for _, sid := range c03Bools {
						for _, mc := range []uint64{36, 35, 34, 33} {
							emit(C03Case{Seq: sq, Cont: cont, Kind: kind, API: api, StoreID: sid, MaxCid: mc})
						}
					}
				}
			}
		}
	}
	for _, sq := range [][]string{{"X2048"}, {"X2049"}, {"a", "X2048", "b"}, {"a", "X2049", "b"}, {"X2049", "X2048"}} {
		for _, cont := range contsM {
			for _, kind := range c03KindsCore {
				for _, api := range c03APIs(kind, true, true) {
					if !apiOK(cont, api) {
						continue
					}
					for _, sid := range c03Bools {
						for _, mc := range []uint64{0, 2048, 2049, 2047} {
							emit(C03Case{Seq: sq, Cont: cont, Kind: kind, API: api, StoreID: sid, MaxCid: mc})
						}
					}
				}
			}
		}
	}

	// ---- M6: the index a writable store rebuilds on RESUME (its own copy of the scanning loop): the special
	// sequences and all sequences up to length 2 (quick: 1) x resumable containers x both front ends, with
	// StoreIdentityCIDs on (a resumed file is indexed as it is)
	var rwSeqs [][]string
	rl := 1
	if thorough {
		rl = 2
	}
	kit.Seqs(names, rl, func(sq []string) { rwSeqs = append(rwSeqs, sq) })
	rwSeqs = append(rwSeqs, special...)
	for _, sq := range rwSeqs {
		for _, cont := range []string{"v1", "v2", "v2pad", "v2idx", "v2bigpad", "v1null", "v2null", "v2idxnull"} {
			for _, api := range []string{"rw-bs", "rw-st"} {
				emit(C03Case{Seq: sq, Cont: cont, Kind: "insertion", API: api, StoreID: true, ZeroEOF: nullCont(cont)})
				if nullCont(cont) {
					emit(C03Case{Seq: sq, Cont: cont, Kind: "insertion", API: api, StoreID: true}) // must be refused
				}
			}
		}
	}

	// ---- M5: a populated bucket (41 records of one width and code, one digest twice)
	many := c03ManySeq()
	for _, cont := range contsAll {
		for _, kind := range c03KindsAll {
			for _, api := range c03APIs(kind, true, true) {
				if !apiOK(cont, api) {
					continue
				}
				for _, sid := range c03Bools {
					emit(C03Case{Seq: many, Cont: cont, Kind: kind, API: api, StoreID: sid, ZeroEOF: nullCont(cont)})
				}
			}
		}
	}
}

func init() {
	kit.Register(&kit.Prop{
		ID:     "C03",
		Gen:    genC03,
		Run:    runC03,
		Decode: kit.DecodeAs[C03Case],
		Rule: "every payload (block sequences up to the bound incl. duplicates, equal digests under different hash functions/codecs, a digest that is a strict prefix of another under the same code, identity, mixed widths, CIDv0; " +
			"one 41-section archive filling a single bucket) under a header with 0/1/2/4 roots (1- and 2-byte header length varint), laid out by the reference encoder as CARv1 / CARv2 (data padding 0, 5, 40001; with embedded index; " +
			"with null padding after the sections, also in front of an embedded index) x index kind (multihash-sorted by default and by explicit UseIndexCodec, sorted, InsertionIndex) x entry point and source kind " +
			"(GenerateIndex/LoadIndex over bytes.Reader, *os.File, plain stream, one-byte / half-buffer / data+EOF short-read streams, bufio.Reader (4096 and 16), *bytes.Buffer, *os.File over a pipe, ReadSeeker without ReadByte, ReadSeeker with short reads; " +
			"GenerateIndexFromFile; ReadOrGenerateIndex over bytes.Reader, *os.File, bare ReadSeeker, short-read ReadSeeker; blockstore.NewReadOnly over ReaderAt-only, bytes.Reader, *os.File; blockstore.OpenReadOnly (mmap); " +
			"storage.OpenReadable over ReaderAt-only, bytes.Reader, *os.File) x StoreIdentityCIDs x ZeroLengthSectionAsEOF x MaxIndexCidSize {default, 40, 36, 35, 34, 33, 2047, 2048, 2049}. " +
			"Matrices: M0 = original full cross on the original entry points; M1 = ZeroLengthSectionAsEOF on unpadded CARv2 (sequences <= 2); M2 = added entry points/containers/explicit codec/prefix+collision blocks on sequences one step shorter than M0 " +
			"(thorough: M0's length-3 sequences through the added entry points with default limits on v1/v2pad/v2idx/v2null); M3 = header shapes x all entry points on sequences <= 1 (quick) / 2 (thorough) over 6 blocks; M4 = size-limit boundaries; M5 = populated bucket; M6 = the index a writable store rebuilds when it resumes the file (blockstore.OpenReadWrite, storage.OpenReadableWritable; StoreIdentityCIDs on) on every resumable container, null padding with and without the option. " +
			"Oracle per execution: codec/type of the returned index; for every alphabet CID, extra CID, archive CID and an absent CID: GetAll = reference offsets (by multihash, or digest for the digest-only kinds), every reported offset " +
			"is a section start carrying that key (checked on go-car's answer), ErrNotFound otherwise (the insertion index may match by digest or by multihash; storage.OpenReadable may return an insertion index or either codec index, the matching rule follows the index returned), " +
			"GetAll stops after the callback returns false (at match 1..3: exactly that many callbacks, no error, distinct expected offsets; no order), GetFirst, InsertionIndex.Get (either matching rule); ForEach multiset (by digest for a digest-only codec index), " +
			"ForEach abort on callback error (call count, error, entries out of the expected multiset; no order), ForEachCid multiset; " +
			"refusals: ErrCidTooLarge with MaxSize/CurrentSize, null padding refused by a non-I/O error (sentinel errors and the stream wrapper's own innermost messages; the refusal's text is not matched); non-trivial = >=2 records or a repeated digest",
		Bound: func(tier string) map[string]any {
			if tier == "thorough" {
				return map[string]any{"seq_len": 3, "alphabet": 14, "alphabet_added_entry_points": "17 (len<=2), 14 (len 3, reduced options)", "collision_prefix_triples": 7, "roots": 4, "containers": 8, "entry_points": "21 (codec kinds) / 15 (insertion)", "maxcid_values": 9, "bucket_population": 41}
			}
			return map[string]any{"seq_len": 2, "alphabet": 8, "alphabet_added_entry_points": "11 (len<=1) + pairs over 6 interacting blocks", "collision_prefix_triples": 4, "roots": 4, "containers": 8, "entry_points": "21 (codec kinds) / 15 (insertion)", "maxcid_values": 9, "bucket_population": 41}
		},
		Assumptions: []string{
			"refcar layout is correct",
			"the insertion index is not one of the statement's codecs: its GetAll/Get may match by digest (what they implement today; FindCid confirms the CID at each candidate) or by multihash; each answer has to equal one of the two reference sets",
			"which index storage.OpenReadable builds for an archive without embedded index is not documented: an insertion index or an index of either codec is accepted and checked under its own matching rule",
			"block 'ka' (a's sha2-256 digest under the blake2b-256 code) stands for a cross-function digest collision between non-identity CIDs; its data does not hash to the CID, which index generation (documented as non-verifying) never looks at; every other block is hash-verified by the reference decoder",
			"an embedded index is taken as is by ReadOrGenerateIndex/NewReadOnly/OpenReadable (no size limit, no null-padding scan); it is written by the reference encoder with the requested codec",
			"a seekable source is handed over positioned at 0 (a reader positioned inside a larger file is outside the statement: go-car reports absolute offsets for it)",
			"short reads, data+EOF reads and a Seek method that fails with ESPIPE are environment behaviours allowed by the io contracts",
		},
	})
}
