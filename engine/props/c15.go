package props

import (
	"bytes"
	"context"
	"errors"
	"fmt"
	"io"
	"os"
	"path/filepath"
	"strings"

	blocks "github.com/ipfs/go-block-format"
	"github.com/ipfs/go-cid"
	cbornode "github.com/ipfs/go-ipld-cbor"
	format "github.com/ipfs/go-ipld-format"
	"github.com/ipfs/go-merkledag"
	carv1 "github.com/ipld/go-car"
	carv2 "github.com/ipld/go-car/v2"
	"github.com/ipld/go-ipld-prime"
	_ "github.com/ipld/go-ipld-prime/codec/dagcbor"
	_ "github.com/ipld/go-ipld-prime/codec/raw"
	"github.com/ipld/go-ipld-prime/datamodel"
	"github.com/ipld/go-ipld-prime/linking"
	cidlink "github.com/ipld/go-ipld-prime/linking/cid"
	"github.com/ipld/go-ipld-prime/node/basicnode"
	"github.com/ipld/go-ipld-prime/traversal/selector"
	"github.com/ipld/go-ipld-prime/traversal/selector/builder"

	"verif/drv"
	"verif/kit"
	"verif/refcar"
)

type C15Case struct {
	N       int      `json:"n"`                // number of nodes
	Mult    []int    `json:"mult"`             // link multiplicity for each pair (i<j) in lexicographic order
	RawLeaf bool     `json:"rawleaf"`          // the last node is a raw block
	Sel     string   `json:"sel"`              // all, depth1, depth2, field-a
	Writer  string   `json:"writer"`           // v2-selective, v2-traversev1, v2-tofile, v1-writecar, v1-selective, v1-prepare-dump
	Opts    drv.Opts `json:"opts"`             // AllowDup = link-visit-once off (v2); paddings; codec; NoIndex
	Budget  uint64   `json:"budget,omitempty"` // MaxTraversalLinks (0 = none)
	Once    bool     `json:"once,omitempty"`   // root module: TraverseLinksOnlyOnce
}

// dag-cbor by hand: map of single-letter link fields plus an integer "z"
func c15Node(id int, links [][]byte) []byte {
	var b []byte
	n := len(links) + 1
	b = append(b, 0xa0|byte(n))
	for i, l := range links {
		b = append(b, 0x61, byte('a'+i))
		b = append(b, 0xd8, 0x2a)
		b = append(b, 0x58, byte(len(l)+1), 0x00)
		b = append(b, l...)
	}
	b = append(b, 0x61, 'z', byte(id))
	return b
}

type c15Dag struct {
	cids  [][]byte
	data  [][]byte
	byCid map[string]int
	kids  [][]int // child indices in field order (with repetitions)
}

func c15Build(cs C15Case) *c15Dag {
	d := &c15Dag{cids: make([][]byte, cs.N), data: make([][]byte, cs.N), byCid: map[string]int{}, kids: make([][]int, cs.N)}
	// pair index
	mult := func(i, j int) int {
		k := 0
		for a := 0; a < cs.N; a++ {
			for b := a + 1; b < cs.N; b++ {
				if a == i && b == j {
					return cs.Mult[k]
				}
				k++
			}
		}
		return 0
	}
	for i := cs.N - 1; i >= 0; i-- {
		var links [][]byte
		for j := i + 1; j < cs.N; j++ {
			for m := 0; m < mult(i, j); m++ {
				links = append(links, d.cids[j])
				d.kids[i] = append(d.kids[i], j)
			}
		}
		codec := uint64(refcar.CodecDagCBOR)
		if i == cs.N-1 && cs.RawLeaf && cs.N > 1 {
			// 100 bytes: the data length alone needs a 1-byte varint, CID+data a 2-byte one
			d.data[i] = []byte(fmt.Sprintf("raw leaf %d %s", i, strings.Repeat("=", 89)))
			codec = refcar.CodecRaw
		} else {
			d.data[i] = c15Node(i, links)
		}
		dg, _ := refcar.Digest(refcar.MhSha256, d.data[i])
		d.cids[i] = refcar.CIDv1(codec, refcar.MhSha256, dg)
		d.byCid[string(d.cids[i])] = i
	}
	return d
}

func c15Selector(name string) datamodel.Node {
	ssb := builder.NewSelectorSpecBuilder(basicnode.Prototype.Any)
	switch name {
	case "all":
		return ssb.ExploreRecursive(selector.RecursionLimitNone(), ssb.ExploreAll(ssb.ExploreRecursiveEdge())).Node()
	case "depth1":
		return ssb.ExploreRecursive(selector.RecursionLimitDepth(1), ssb.ExploreAll(ssb.ExploreRecursiveEdge())).Node()
	case "depth2":
		return ssb.ExploreRecursive(selector.RecursionLimitDepth(2), ssb.ExploreAll(ssb.ExploreRecursiveEdge())).Node()
	case "field-a":
		return ssb.ExploreFields(func(e builder.ExploreFieldsSpecBuilder) { e.Insert("a", ssb.Matcher()) }).Node()
	}
	panic(name)
}

// logging store -----------------------------------------------------------

type c15Store struct {
	d   *c15Dag
	log []int // node indices in load order
}

func (s *c15Store) get(c cid.Cid) ([]byte, error) {
	i, ok := s.d.byCid[string(c.Bytes())]
	if !ok {
		return nil, format.ErrNotFound{Cid: c}
	}
	s.log = append(s.log, i)
	return s.d.data[i], nil
}

func (s *c15Store) Get(_ context.Context, c cid.Cid) (blocks.Block, error) {
	b, err := s.get(c)
	if err != nil {
		return nil, err
	}
	return blocks.NewBlockWithCid(b, c)
}

func (s *c15Store) linkSystem() ipld.LinkSystem {
	ls := cidlink.DefaultLinkSystem()
	ls.TrustedStorage = true
	ls.StorageReadOpener = func(_ linking.LinkContext, l ipld.Link) (io.Reader, error) {
		b, err := s.get(l.(cidlink.Link).Cid)
		if err != nil {
			return nil, err
		}
		return bytes.NewReader(b), nil
	}
	return ls
}

// format.NodeGetter for the root module's WriteCar
type c15NodeGetter struct{ s *c15Store }

func (g c15NodeGetter) Get(ctx context.Context, c cid.Cid) (format.Node, error) {
	blk, err := g.s.Get(ctx, c)
	if err != nil {
		return nil, err
	}
	if c.Prefix().Codec == cid.Raw {
		return merkledag.NewRawNodeWPrefix(blk.RawData(), c.Prefix())
	}
	return cbornode.DecodeBlock(blk)
}
func (g c15NodeGetter) GetMany(ctx context.Context, cs []cid.Cid) <-chan *format.NodeOption {
	ch := make(chan *format.NodeOption, len(cs))
	for _, c := range cs {
		n, err := g.Get(ctx, c)
		ch <- &format.NodeOption{Node: n, Err: err}
	}
	close(ch)
	return ch
}

func firstVisit(log []int) []int {
	seen := map[int]bool{}
	var out []int
	for _, i := range log {
		if !seen[i] {
			seen[i] = true
			out = append(out, i)
		}
	}
	return out
}

func runC15(c any, x *kit.Ctx) {
	cs := c.(C15Case)
	d := c15Build(cs)
	root, _ := cid.Cast(d.cids[0])
	sel := c15Selector(cs.Sel)
	st := &c15Store{d: d}
	ctx := context.Background()
	tag := cs.Writer
	x.Eval(1)
	defaultCfg := !cs.Opts.AllowDup && cs.Budget == 0
	refusal := func(err error) bool {
		// an error is a refusal and asserts nothing, except in the default configuration
		// (link-visit-once, no budget) where the traversal must go through
		if defaultCfg || (cs.Writer[:2] == "v1" && cs.Budget == 0) {
			x.Fail("c15:unexpected-error:"+tag, "writer failed with default traversal options: %v", err)
		}
		x.Outcome("refused")
		return true
	}
	checkPayload := func(payload []byte, writeLog []int, what string) *refcar.Payload {
		pl, err := refcar.DecodePayload(payload, false, true)
		if err != nil {
			x.Fail("c15:payload-malformed:"+tag, "%s: payload not well-formed: %v", what, err)
			return nil
		}
		if !sameRoots(pl.Header.Roots, [][]byte{d.cids[0]}) {
			x.Fail("c15:roots:"+tag, "%s: roots %x want the traversal root", what, pl.Header.Roots)
		}
		want := firstVisit(writeLog)
		var got []int
		for _, s := range pl.Sections {
			i, ok := d.byCid[string(s.Cid)]
			if !ok {
				x.Fail("c15:unknown-block:"+tag, "%s: output holds a block that is not in the DAG", what)
				return pl
			}
			got = append(got, i)
		}
		if fmt.Sprint(got) != fmt.Sprint(want) {
			x.Fail("c15:blocks:"+tag, "%s: output blocks %v; the traversal loaded (first-visit order) %v; full load log %v", what, got, want, writeLog)
		}
		return pl
	}
	var opts []carv2.Option
	o := cs.Opts
	opts = o.List()
	if cs.Budget > 0 {
		opts = append(opts, carv2.MaxTraversalLinks(cs.Budget))
	}
	checkV2 := func(file []byte, writeLog []int, what string) {
		fl, err := refcar.DecodeFile(file, false)
		if err != nil {
			x.Fail("c15:file-malformed:"+tag, "%s: output is not a well-formed CARv2: %v", what, err)
			return
		}
		if fl.Version != 2 {
			x.Fail("c15:file-version:"+tag, "%s: not a CARv2", what)
			return
		}
		if fl.V2.DataOffset != 51+o.DataPad {
			x.Fail("c15:data-offset:"+tag, "%s: DataOffset %d want %d", what, fl.V2.DataOffset, 51+o.DataPad)
		}
		checkPayload(fl.PayloadRaw, writeLog, what)
		if o.NoIndex {
			if fl.HasIndex {
				x.Fail("c15:index-present:"+tag, "%s: index written despite WithoutIndex", what)
			}
		} else {
			if !fl.HasIndex {
				x.Fail("c15:index-missing:"+tag, "%s: no index", what)
			} else {
				if fl.V2.IndexOffset != fl.V2.DataOffset+fl.V2.DataSize+o.IndexPad {
					x.Fail("c15:index-offset:"+tag, "%s: IndexOffset %d want %d", what, fl.V2.IndexOffset, fl.V2.DataOffset+fl.V2.DataSize+o.IndexPad)
				}
				if g, w := recMultiset(fl.IndexCodec, fl.Index), recMultiset(fl.IndexCodec, refcar.RecordsOf(fl.Payload, true)); g != w {
					x.Fail("c15:index-records:"+tag, "%s: index {%s} want {%s}", what, g, w)
				}
			}
		}
	}
	switch cs.Writer {
	case "v2-selective":
		ls := st.linkSystem()
		w, err := carv2.NewSelectiveWriter(ctx, &ls, root, sel, opts...)
		if err != nil {
			refusal(err)
			return
		}
		st.log = nil // from here on: the writing pass
		var buf bytes.Buffer
		n, err := w.WriteTo(&buf)
		x.Transition(len(st.log))
		if err != nil {
			if errors.Is(err, carv2.ErrSizeMismatch) && defaultCfg {
				x.Fail("c15:size-mismatch:"+tag, "counting pass and writing pass disagree with default options: %v", err)
			}
			refusal(err)
			return
		}
		if n != int64(buf.Len()) {
			x.Fail("c15:returned-count:"+tag, "WriteTo returned %d but wrote %d bytes", n, buf.Len())
		}
		checkV2(buf.Bytes(), st.log, "NewSelectiveWriter.WriteTo")
	case "v2-traversev1":
		ls := st.linkSystem()
		var buf bytes.Buffer
		n, err := carv2.TraverseV1(ctx, &ls, root, sel, &buf, opts...)
		x.Transition(len(st.log))
		if err != nil {
			refusal(err)
			return
		}
		if n != uint64(buf.Len()) {
			x.Fail("c15:returned-count:"+tag, "TraverseV1 returned %d but wrote %d bytes", n, buf.Len())
		}
		checkPayload(buf.Bytes(), st.log, "TraverseV1")
	case "v2-tofile":
		ls := st.linkSystem()
		p := filepath.Join(x.Dir, "c15.car")
		os.Remove(p)
		defer os.Remove(p)
		err := carv2.TraverseToFile(ctx, &ls, root, sel, p, opts...)
		x.Transition(len(st.log))
		if err != nil {
			refusal(err)
			return
		}
		b, _ := os.ReadFile(p)
		checkV2(b, st.log, "TraverseToFile")
	case "v1-writecar":
		var buf bytes.Buffer
		err := carv1.WriteCar(ctx, c15NodeGetter{st}, []cid.Cid{root}, &buf)
		x.Transition(len(st.log))
		if err != nil {
			refusal(err)
			return
		}
		checkPayload(buf.Bytes(), st.log, "WriteCar")
	case "v1-selective", "v1-prepare-dump":
		var ropts []carv1.Option
		if cs.Once {
			ropts = append(ropts, carv1.TraverseLinksOnlyOnce())
		}
		if cs.Budget > 0 {
			ropts = append(ropts, carv1.MaxTraversalLinks(cs.Budget))
		}
		sc := carv1.NewSelectiveCar(ctx, st, []carv1.Dag{{Root: root, Selector: sel}}, ropts...)
		var buf bytes.Buffer
		type cb struct {
			c         []byte
			off, size uint64
		}
		var cbs []cb
		err := sc.Write(&buf, func(b carv1.Block) error {
			cbs = append(cbs, cb{b.BlockCID.Bytes(), b.Offset, b.Size})
			return nil
		})
		x.Transition(len(st.log))
		if err != nil {
			refusal(err)
			return
		}
		writeLog := st.log
		pl := checkPayload(buf.Bytes(), writeLog, "SelectiveCar.Write")
		checkCbs := func(cbs []cb, what string) {
			if pl == nil {
				return
			}
			if len(cbs) != len(pl.Sections) {
				x.Fail("c15:callback-count:"+tag, "%s: %d block callbacks for %d sections", what, len(cbs), len(pl.Sections))
				return
			}
			for i, s := range pl.Sections {
				if !bytes.Equal(cbs[i].c, s.Cid) || cbs[i].off != s.Offset || cbs[i].size != s.Len {
					x.Fail("c15:callback-offsets:"+tag, "%s: callback %d reports offset %d size %d; the section is at %d with size %d", what, i, cbs[i].off, cbs[i].size, s.Offset, s.Len)
				}
			}
		}
		checkCbs(cbs, "Write")
		if cs.Writer == "v1-prepare-dump" {
			st.log = nil
			var cbs2 []cb
			prep, err := sc.Prepare(func(b carv1.Block) error {
				cbs2 = append(cbs2, cb{b.BlockCID.Bytes(), b.Offset, b.Size})
				return nil
			})
			if err != nil {
				refusal(err)
				return
			}
			if prep.Size() != uint64(buf.Len()) {
				x.Fail("c15:prepare-size:"+tag, "Prepare().Size()=%d but Write produced %d bytes", prep.Size(), buf.Len())
			}
			var dump bytes.Buffer
			if err := prep.Dump(ctx, &dump); err != nil {
				x.Fail("c15:dump-error:"+tag, "Dump failed: %v", err)
				return
			}
			if !bytes.Equal(dump.Bytes(), buf.Bytes()) {
				x.Fail("c15:dump-differs:"+tag, "Dump and Write produce different bytes (%d vs %d)", dump.Len(), buf.Len())
			}
			checkCbs(cbs2, "Dump")
		}
	}
	x.State(fmt.Sprintf("%+v", cs))
	x.Outcome("written")
	repeated := false
	for _, m := range cs.Mult {
		if m > 1 {
			repeated = true
		}
	}
	if repeated || cs.N >= 3 {
		x.Nontrivial(fmt.Sprintf("%+v", cs))
	}
}

func genC15(tier string, emit func(any)) {
	maxN := 4
	if tier == "thorough" {
		maxN = 5
	}
	for n := 1; n <= maxN; n++ {
		pairs := n * (n - 1) / 2
		total := 1
		for i := 0; i < pairs; i++ {
			total *= 3
		}
		for code := 0; code < total; code++ {
			mult := make([]int, pairs)
			cc := code
			for i := range mult {
				mult[i] = cc % 3
				cc /= 3
			}
			for _, raw := range []bool{false, true} {
				if raw && n == 1 {
					continue
				}
				for _, sel := range []string{"all", "depth1", "depth2", "field-a"} {
					base := C15Case{N: n, Mult: mult, RawLeaf: raw, Sel: sel}
					// v2 writers
					for _, w := range []string{"v2-selective", "v2-traversev1", "v2-tofile"} {
						for _, dup := range []bool{false, true} {
							for _, budget := range []uint64{0, 1, 2} {
								type pc struct {
									dp, ip uint64
									codec  string
									noidx  bool
								}
								pcs := []pc{{}, {dp: 3, ip: 2, codec: "sorted"}, {noidx: true}}
								if w == "v2-traversev1" {
									pcs = pcs[:1]
								}
								if budget > 0 {
									pcs = pcs[:1]
								}
								for _, p := range pcs {
									cs := base
									cs.Writer = w
									cs.Opts = drv.Opts{AllowDup: dup, DataPad: p.dp, IndexPad: p.ip, Codec: p.codec, NoIndex: p.noidx}
									cs.Budget = budget
									emit(cs)
								}
							}
						}
					}
					// root module writers
					if sel == "all" {
						cs := base
						cs.Writer = "v1-writecar"
						emit(cs)
					}
					for _, w := range []string{"v1-selective", "v1-prepare-dump"} {
						for _, once := range []bool{false, true} {
							for _, budget := range []uint64{0, 2} {
								cs := base
								cs.Writer, cs.Once, cs.Budget = w, once, budget
								emit(cs)
							}
						}
					}
				}
			}
		}
	}
}

func init() {
	kit.Register(&kit.Prop{
		ID:     "C15",
		Gen:    genC15,
		Run:    runC15,
		Decode: kit.DecodeAs[C15Case],
		Rule: "every dag-cbor DAG with up to N nodes (upper-triangular adjacency, link multiplicity 0/1/2 per pair, optional raw leaf; hand-encoded) x selector {explore-all, depth 1, depth 2, first field} x writer {NewSelectiveWriter.WriteTo, TraverseV1, TraverseToFile, root WriteCar, SelectiveCar.Write, Prepare+Dump} x {link-visit-once on/off, link budget none/1/2, paddings, index codec/none}; " +
			"oracle: an independent log of the loads of the writing pass (first-visit order = output blocks, each once), announced sizes = bytes written, Dump = Write, callback offsets = section offsets; an error is a refusal unless the traversal options are the defaults; non-trivial = DAG with >= 3 nodes or a repeated link",
		Bound: func(tier string) map[string]any {
			if tier == "thorough" {
				return map[string]any{"nodes": 5, "link_multiplicity": 2, "selectors": 4, "writers": 6}
			}
			return map[string]any{"nodes": 4, "link_multiplicity": 2, "selectors": 4, "writers": 6}
		},
		Assumptions: []string{"hand-written dag-cbor encoder", "ErrSizeMismatch and budget exhaustion are refusals (asserting nothing) outside the default configuration"},
	})
}
