package props

import (
	"bytes"
	"context"
	"errors"
	"fmt"
	"io"
	"math"
	"os"
	"path/filepath"
	"sort"
	"strings"
	"sync"

	blocks "github.com/ipfs/go-block-format"
	"github.com/ipfs/go-cid"
	cbornode "github.com/ipfs/go-ipld-cbor"
	format "github.com/ipfs/go-ipld-format"
	"github.com/ipfs/go-merkledag"
	carv1 "github.com/ipld/go-car"
	carv2 "github.com/ipld/go-car/v2"
	dagpb "github.com/ipld/go-codec-dagpb"
	"github.com/ipld/go-ipld-prime"
	_ "github.com/ipld/go-ipld-prime/codec/dagcbor"
	_ "github.com/ipld/go-ipld-prime/codec/raw"
	"github.com/ipld/go-ipld-prime/datamodel"
	"github.com/ipld/go-ipld-prime/linking"
	cidlink "github.com/ipld/go-ipld-prime/linking/cid"
	"github.com/ipld/go-ipld-prime/node/basicnode"
	"github.com/ipld/go-ipld-prime/traversal"
	"github.com/ipld/go-ipld-prime/traversal/selector"
	"github.com/ipld/go-ipld-prime/traversal/selector/builder"

	"verif/drv"
	"verif/kit"
	"verif/refcar"
)

type C15Case struct {
	N       int      `json:"n"`                  // number of nodes
	Mult    []int    `json:"mult"`               // link multiplicity for each pair (i<j) in lexicographic order
	RawLeaf bool     `json:"rawleaf"`            // the last node is a 100-byte raw block
	Leaf    string   `json:"leaf,omitempty"`     // other shapes of the last node: twin, ident, raw0 (see c15Build)
	Codec   string   `json:"dagcodec,omitempty"` // "" = dag-cbor with CIDv1, "pb" = dag-pb with CIDv0
	Sel     string   `json:"sel"`                // all, depth1, depth2, field-a, bytes
	Writer  string   `json:"writer"`             // v2-selective, v2-traversev1, v2-tofile, v1-writecar, v1-selective, v1-prepare-dump
	Opts    drv.Opts `json:"opts"`               // AllowDup = link-visit-once off (v2); paddings; codec; NoIndex
	Budget  uint64   `json:"budget,omitempty"`   // MaxTraversalLinks (0 = none)
	Budget0 bool     `json:"budget0,omitempty"`  // MaxTraversalLinks(0)
	Once    bool     `json:"once,omitempty"`     // root module: TraverseLinksOnlyOnce
	Root2   int      `json:"root2,omitempty"`    // root module: k>0 = a second root / Dag at node k-1 (1 = the same root twice)
	Sel2    string   `json:"sel2,omitempty"`     // selector of the second Dag ("" = Sel)
	Cbs     string   `json:"cbs,omitempty"`      // SelectiveCar block callbacks: "" = one, "none", "two"
	Missing int      `json:"missing,omitempty"`  // k>0: node k is absent from the store (SkipMe / not-found)
	Walker  string   `json:"walker,omitempty"`   // v1-writecar: "skip1" = WriteCarWithWalker with a walk func dropping the links to node 1
	Chooser bool     `json:"chooser,omitempty"`  // v2: WithTraversalPrototypeChooser(dag-pb aware chooser)
	Prefill bool     `json:"prefill,omitempty"`  // v2-tofile: the destination already exists and is longer than the result
	// size classes (c15_m5.go)
	Big      int `json:"big,omitempty"`      // k>0: node k-1 is padded so that its section (CID bytes + data) has exactly Sect bytes
	Sect     int `json:"sect,omitempty"`     // section length of the padded node
	IdentLen int `json:"identlen,omitempty"` // identity-CID leaf: length of its data (0 = the 3-byte default); with N=1 the leaf is the only node
	Dup0     int `json:"dup0,omitempty"`     // root module: that many further Dags / roots at node 0 (before the Root2 one)
}

func (cs C15Case) leafKind() string {
	if cs.RawLeaf {
		return "raw"
	}
	return cs.Leaf
}

// dag-cbor by hand: map of single-letter link fields plus an integer "z"
func c15Node(id int, links [][]byte) []byte {
	var b []byte
	n := len(links) + 1
	b = append(b, 0xa0|byte(n))
	for i, l := range links {
		b = append(b, 0x61, byte('a'+i))
		b = append(b, 0xd8, 0x2a)
		b = append(b, 0x58, byte(len(l)+1), 0x00)
		b = append(b, l...)
	}
	b = append(b, 0x61, 'z', byte(id))
	return b
}

// dag-pb by hand: PBLink{Hash, Name = one letter, Tsize = 0} in field order, then Data = one byte
func c15PBNode(id int, links [][]byte) []byte {
	var b []byte
	for i, l := range links {
		var lb []byte
		lb = append(lb, 0x0a, byte(len(l)))
		lb = append(lb, l...)
		lb = append(lb, 0x12, 0x01, byte('a'+i))
		lb = append(lb, 0x18, 0x00)
		b = append(b, 0x12, byte(len(lb)))
		b = append(b, lb...)
	}
	b = append(b, 0x0a, 0x01, byte(id))
	return b
}

type c15Dag struct {
	cids  [][]byte
	data  [][]byte
	byCid map[string]int
	kids  [][]int // child indices in field order (with repetitions)
	ident int     // index of the node under an identity CID, -1 = none
}

// c15Build makes the DAG of a case. Inner nodes are dag-cbor/CIDv1 or dag-pb/CIDv0. The last node can be
//
//	raw   : a 100-byte raw block (data length needs a 1-byte varint, CID+data a 2-byte one)
//	twin  : a raw block whose bytes are those of node N-2 encoded as a leaf: when N-2 is a leaf the two CIDs share
//	        their multihash and differ in the codec only
//	ident : a raw block under an identity-multihash CID
//	raw0  : a zero-length raw block
func c15Build(cs C15Case) *c15Dag {
	d := &c15Dag{cids: make([][]byte, cs.N), data: make([][]byte, cs.N), byCid: map[string]int{}, kids: make([][]int, cs.N), ident: -1}
	// pair index
	mult := func(i, j int) int {
		k := 0
		for a := 0; a < cs.N; a++ {
			for b := a + 1; b < cs.N; b++ {
				if a == i && b == j {
					return cs.Mult[k]
				}
				k++
			}
		}
		return 0
	}
	enc := c15Node
	if cs.Codec == "pb" {
		enc = c15PBNode
	}
	kind := cs.leafKind()
	for i := cs.N - 1; i >= 0; i-- {
		var links [][]byte
		for j := i + 1; j < cs.N; j++ {
			for m := 0; m < mult(i, j); m++ {
				links = append(links, d.cids[j])
				d.kids[i] = append(d.kids[i], j)
			}
		}
		special := ""
		if i == cs.N-1 && (cs.N > 1 || (kind == "ident" && cs.IdentLen > 0)) {
			special = kind
		}
		switch special {
		case "raw":
			d.data[i] = []byte(fmt.Sprintf("raw leaf %d %s", i, strings.Repeat("=", 89)))
		case "twin":
			d.data[i] = enc(cs.N-2, nil)
		case "ident":
			d.data[i] = []byte{'i', 'd', byte(i)}
			if cs.IdentLen > 0 {
				d.data[i] = c15Fill(i, cs.IdentLen)
			}
		case "raw0":
			d.data[i] = []byte{}
		default:
			d.data[i] = enc(i, links)
		}
		if cs.Big == i+1 {
			// size class: this node's section has exactly cs.Sect bytes (the generator emits reachable lengths only)
			d.data[i] = c15SizedData(cs, special, i, links)
		}
		switch {
		case special == "ident":
			d.ident = i
			d.cids[i] = refcar.CIDv1(refcar.CodecRaw, refcar.MhIdentity, d.data[i])
		case special != "":
			dg, _ := refcar.Digest(refcar.MhSha256, d.data[i])
			d.cids[i] = refcar.CIDv1(refcar.CodecRaw, refcar.MhSha256, dg)
		case cs.Codec == "pb":
			dg, _ := refcar.Digest(refcar.MhSha256, d.data[i])
			d.cids[i] = refcar.CIDv0(dg)
		default:
			dg, _ := refcar.Digest(refcar.MhSha256, d.data[i])
			d.cids[i] = refcar.CIDv1(refcar.CodecDagCBOR, refcar.MhSha256, dg)
		}
		d.byCid[string(d.cids[i])] = i
	}
	return d
}

// reach is the hand model of an exhaustive walk: the nodes reachable from the roots, not descending through a
// node that is absent from the store and not following links to drop (walker variant).
func (d *c15Dag) reach(roots []int, missing, drop int) map[int]bool {
	seen := map[int]bool{}
	var walk func(i int)
	walk = func(i int) {
		if seen[i] || i == missing {
			return
		}
		seen[i] = true
		for _, j := range d.kids[i] {
			if j != drop {
				walk(j)
			}
		}
	}
	for _, r := range roots {
		walk(r)
	}
	return seen
}

func c15Selector(name, codec string) datamodel.Node {
	ssb := builder.NewSelectorSpecBuilder(basicnode.Prototype.Any)
	// a dag-pb link sits three data-model steps below its node (Links / index / Hash)
	d1, d2 := int64(1), int64(2)
	if codec == "pb" {
		d1, d2 = 4, 7
	}
	switch name {
	case "all":
		return ssb.ExploreRecursive(selector.RecursionLimitNone(), ssb.ExploreAll(ssb.ExploreRecursiveEdge())).Node()
	case "depth1":
		return ssb.ExploreRecursive(selector.RecursionLimitDepth(d1), ssb.ExploreAll(ssb.ExploreRecursiveEdge())).Node()
	case "depth2":
		return ssb.ExploreRecursive(selector.RecursionLimitDepth(d2), ssb.ExploreAll(ssb.ExploreRecursiveEdge())).Node()
	case "field-a":
		if codec == "pb" {
			return ssb.ExploreFields(func(e builder.ExploreFieldsSpecBuilder) {
				e.Insert("Links", ssb.ExploreIndex(0, ssb.ExploreFields(func(e builder.ExploreFieldsSpecBuilder) { e.Insert("Hash", ssb.Matcher()) })))
			}).Node()
		}
		return ssb.ExploreFields(func(e builder.ExploreFieldsSpecBuilder) { e.Insert("a", ssb.Matcher()) }).Node()
	case "bytes":
		// the unixfs-file shape: the root is reified into a LargeBytesNode whose byte stream loads the children lazily
		return ssb.ExploreInterpretAs(c15BigADL, ssb.Matcher()).Node()
	}
	panic(name)
}

// logging store -----------------------------------------------------------

type c15Store struct {
	d        *c15Dag
	log      []int // node indices in load order (successful loads only)
	missing  int   // node index absent from the store, -1 = none
	notFound bool  // absent = format.ErrNotFound (merkledag) instead of traversal.SkipMe (ipld-prime)
	// inline: the identity-CID node is loaded from its CID, never from the store: it cannot be absent and its loads are
	// not logged (the reference of a writer that does not ask the store for identity blocks)
	inline bool
	full   []int // every successful load, those of an inline identity node included
	// askedIdent: the store was asked for the identity node (served or not)
	askedIdent bool
}

func (s *c15Store) get(c cid.Cid) ([]byte, error) {
	i, ok := s.d.byCid[string(c.Bytes())]
	if !ok {
		return nil, format.ErrNotFound{Cid: c}
	}
	if i == s.d.ident {
		s.askedIdent = true
	}
	if s.inline && i == s.d.ident {
		s.full = append(s.full, i)
		return s.d.data[i], nil
	}
	if i == s.missing {
		if s.notFound {
			return nil, format.ErrNotFound{Cid: c}
		}
		return nil, traversal.SkipMe{}
	}
	s.log = append(s.log, i)
	s.full = append(s.full, i)
	return s.d.data[i], nil
}

func (s *c15Store) Get(_ context.Context, c cid.Cid) (blocks.Block, error) {
	b, err := s.get(c)
	if err != nil {
		return nil, err
	}
	return blocks.NewBlockWithCid(b, c)
}

func (s *c15Store) linkSystem() ipld.LinkSystem {
	ls := cidlink.DefaultLinkSystem()
	ls.TrustedStorage = true
	ls.StorageReadOpener = func(_ linking.LinkContext, l ipld.Link) (io.Reader, error) {
		b, err := s.get(l.(cidlink.Link).Cid)
		if err != nil {
			return nil, err
		}
		return bytes.NewReader(b), nil
	}
	ls.KnownReifiers = map[string]linking.NodeReifier{c15BigADL: c15BigReifier}
	return ls
}

// A minimal stand-in for the unixfs file ADL: the reified node is a LargeBytesNode; reading its bytes loads every
// link held by the node (in field order, repetitions included) through the link system it was reified with.
const c15BigADL = "c15big"

type c15Big struct {
	datamodel.Node
	ls  *linking.LinkSystem
	ctx context.Context
}

func c15BigReifier(lc linking.LinkContext, n datamodel.Node, ls *linking.LinkSystem) (datamodel.Node, error) {
	return &c15Big{Node: n, ls: ls, ctx: lc.Ctx}, nil
}

func c15Links(n datamodel.Node, out []datamodel.Link) []datamodel.Link {
	switch n.Kind() {
	case datamodel.Kind_Link:
		l, _ := n.AsLink()
		out = append(out, l)
	case datamodel.Kind_Map:
		for it := n.MapIterator(); !it.Done(); {
			_, v, err := it.Next()
			if err != nil {
				break
			}
			out = c15Links(v, out)
		}
	case datamodel.Kind_List:
		for it := n.ListIterator(); !it.Done(); {
			_, v, err := it.Next()
			if err != nil {
				break
			}
			out = c15Links(v, out)
		}
	}
	return out
}

func (b *c15Big) AsLargeBytes() (io.ReadSeeker, error) {
	return &c15BigReader{b: b, links: c15Links(b.Node, nil)}, nil
}

type c15BigReader struct {
	b     *c15Big
	links []datamodel.Link
}

func (r *c15BigReader) Read(p []byte) (int, error) {
	if len(r.links) == 0 {
		return 0, io.EOF
	}
	if len(p) == 0 {
		return 0, nil
	}
	l := r.links[0]
	r.links = r.links[1:]
	if _, err := r.b.ls.Load(linking.LinkContext{Ctx: r.b.ctx}, l, basicnode.Prototype.Any); err != nil {
		return 0, err
	}
	p[0] = '.'
	return 1, nil
}

func (r *c15BigReader) Seek(int64, int) (int64, error) {
	return 0, errors.New("c15: not seekable")
}

// format.NodeGetter for the root module's WriteCar
type c15NodeGetter struct{ s *c15Store }

func (g c15NodeGetter) Get(ctx context.Context, c cid.Cid) (format.Node, error) {
	blk, err := g.s.Get(ctx, c)
	if err != nil {
		return nil, err
	}
	switch c.Prefix().Codec {
	case cid.Raw:
		return merkledag.NewRawNodeWPrefix(blk.RawData(), c.Prefix())
	case cid.DagProtobuf:
		return merkledag.DecodeProtobufBlock(blk)
	}
	return cbornode.DecodeBlock(blk)
}
func (g c15NodeGetter) GetMany(ctx context.Context, cs []cid.Cid) <-chan *format.NodeOption {
	ch := make(chan *format.NodeOption, len(cs))
	for _, c := range cs {
		n, err := g.Get(ctx, c)
		ch <- &format.NodeOption{Node: n, Err: err}
	}
	close(ch)
	return ch
}

func firstVisit(log []int) []int {
	seen := map[int]bool{}
	var out []int
	for _, i := range log {
		if !seen[i] {
			seen[i] = true
			out = append(out, i)
		}
	}
	return out
}

// reference traversal ------------------------------------------------------

type c15DagSpec struct {
	root int
	sel  string
}

type c15Ref struct {
	log  []int
	err  error
	full []int // log plus the loads of an identity node that is not asked of the store
}

func c15BasicChooser(ipld.Link, linking.LinkContext) (ipld.NodePrototype, error) {
	return basicnode.Prototype.Any, nil
}

// c15Reference runs the traversal the writers are specified to perform - one ipld-prime walk per (root, selector)
// with the documented meaning of the options - directly on a fresh logging store, without go-car.
// budget < 0 = none. Each walk has its own seen-links set and, unless shared is set, its own budget; with shared the
// walks of all the Dags draw on one budget (whether MaxTraversalLinks bounds each Dag or the whole car is not
// documented and not part of the statement).
func c15Reference(ctx context.Context, d *c15Dag, cs C15Case, dags []c15DagSpec, once bool, budget int64, shared bool, chooser traversal.LinkTargetNodePrototypeChooser, inline bool) c15Ref {
	st := &c15Store{d: d, missing: c15Missing(cs), inline: inline}
	ls := st.linkSystem()
	var sharedBudget *traversal.Budget
	if shared && budget >= 0 {
		sharedBudget = &traversal.Budget{NodeBudget: math.MaxInt64, LinkBudget: budget}
	}
	for _, dg := range dags {
		if dg.sel == "bytes" {
			// hand model (the visit function that drains the bytes is go-car's): the root, then its links in order
			if _, err := st.get(mustCid(d.cids[dg.root])); err != nil {
				return c15Ref{st.log, err, st.full}
			}
			for _, k := range d.kids[dg.root] {
				if _, err := st.get(mustCid(d.cids[k])); err != nil {
					return c15Ref{st.log, err, st.full}
				}
			}
			continue
		}
		sel, err := selector.CompileSelector(c15Selector(dg.sel, cs.Codec))
		if err != nil {
			panic(err)
		}
		lnk := cidlink.Link{Cid: mustCid(d.cids[dg.root])}
		np, _ := chooser(lnk, linking.LinkContext{})
		rootNode, err := ls.Load(linking.LinkContext{Ctx: ctx}, lnk, np)
		if err != nil {
			return c15Ref{st.log, err, st.full}
		}
		prog := traversal.Progress{Cfg: &traversal.Config{
			Ctx:                            ctx,
			LinkSystem:                     ls,
			LinkTargetNodePrototypeChooser: chooser,
			LinkVisitOnlyOnce:              once,
		}}
		if sharedBudget != nil {
			prog.Budget = sharedBudget
		} else if budget >= 0 {
			prog.Budget = &traversal.Budget{NodeBudget: math.MaxInt64, LinkBudget: budget}
		}
		if err := prog.WalkAdv(rootNode, sel, func(traversal.Progress, datamodel.Node, traversal.VisitReason) error { return nil }); err != nil {
			return c15Ref{st.log, err, st.full}
		}
	}
	return c15Ref{st.log, nil, st.full}
}

// The reference result depends on the DAG, the Dags, link-visit-once, the budget and the prototype chooser only; the
// generator emits the cases of one DAG consecutively, so every worker keeps the results of its current DAG.
type c15RefCache struct {
	dag string
	m   map[string]c15Ref
}

var c15RefCaches sync.Map // worker scratch dir (one goroutine each) -> *c15RefCache

func c15CachedReference(x *kit.Ctx, ctx context.Context, d *c15Dag, cs C15Case, dags []c15DagSpec, once bool, budget int64, shared, typed, inline bool) c15Ref {
	v, _ := c15RefCaches.LoadOrStore(x.Dir, &c15RefCache{})
	c := v.(*c15RefCache)
	dagKey := fmt.Sprintf("%d%v|%s|%s|%d|%d|%d|%d", cs.N, cs.Mult, cs.Codec, cs.leafKind(), cs.Missing, cs.Big, cs.Sect, cs.IdentLen)
	if c.dag != dagKey {
		c.dag, c.m = dagKey, map[string]c15Ref{}
	}
	k := fmt.Sprintf("%v|%v|%d|%v|%v|%v", dags, once, budget, shared, typed, inline)
	if r, ok := c.m[k]; ok {
		return r
	}
	ch := traversal.LinkTargetNodePrototypeChooser(c15BasicChooser)
	if typed {
		ch = dagpb.AddSupportToChooser(c15BasicChooser)
	}
	r := c15Reference(ctx, d, cs, dags, once, budget, shared, ch, inline)
	c.m[k] = r
	return r
}

func mustCid(b []byte) cid.Cid {
	c, err := cid.Cast(b)
	if err != nil {
		panic(err)
	}
	return c
}

func c15Missing(cs C15Case) int {
	if cs.Missing > 0 {
		return cs.Missing
	}
	return -1
}

func hasRepeats(log []int) bool { return len(firstVisit(log)) != len(log) }

// sameLoadSet: two load logs name the same set of nodes. How often and in which order a writer reads the store is not
// part of the statement (the order of the output is checked against the writer's own log).
func sameLoadSet(a, b []int) bool {
	as, bs := map[int]bool{}, map[int]bool{}
	for _, i := range a {
		as[i] = true
	}
	for _, i := range b {
		bs[i] = true
	}
	if len(as) != len(bs) {
		return false
	}
	for i := range as {
		if !bs[i] {
			return false
		}
	}
	return true
}

// rootSet: the distinct roots, sorted.
func rootSet(rs [][]byte) [][]byte {
	seen := map[string]bool{}
	var out [][]byte
	for _, r := range rs {
		if !seen[string(r)] {
			seen[string(r)] = true
			out = append(out, r)
		}
	}
	sort.Slice(out, func(i, j int) bool { return bytes.Compare(out[i], out[j]) < 0 })
	return out
}

func sortedKeys(m map[int]bool) []int {
	var out []int
	for k := range m {
		out = append(out, k)
	}
	sort.Ints(out)
	return out
}

func runC15(c any, x *kit.Ctx) {
	cs := c.(C15Case)
	d := c15Build(cs)
	root := mustCid(d.cids[0])
	sel := c15Selector(cs.Sel, cs.Codec)
	missing := c15Missing(cs)
	st := &c15Store{d: d, missing: missing}
	ctx := context.Background()
	tag := cs.Writer
	x.Eval(1)
	isV1 := cs.Writer[:2] == "v1"

	// the Dags / roots of the case
	dags := []c15DagSpec{{0, cs.Sel}}
	for k := 0; k < cs.Dup0; k++ {
		dags = append(dags, c15DagSpec{0, cs.Sel})
	}
	if cs.Root2 > 0 {
		s2 := cs.Sel2
		if s2 == "" {
			s2 = cs.Sel
		}
		dags = append(dags, c15DagSpec{cs.Root2 - 1, s2})
	}
	var wantRoots [][]byte
	var rootIdx []int
	var rootCids []cid.Cid
	for _, dg := range dags {
		wantRoots = append(wantRoots, d.cids[dg.root])
		rootIdx = append(rootIdx, dg.root)
		rootCids = append(rootCids, mustCid(d.cids[dg.root]))
	}

	budget := int64(-1)
	if cs.Budget > 0 {
		budget = int64(cs.Budget)
	}
	if cs.Budget0 {
		budget = 0
	}
	defaultCfg := !cs.Opts.AllowDup && budget < 0

	// reference traversals this run may legally coincide with
	// an identity CID carries its block: a writer may ask the store for it like for any other block, or take it from the
	// CID (then the store's log does not show the load, and the block cannot be "absent"). Which of the two a pass did
	// is read off its log (useRefs); the references of the second kind are walks over a store with that behaviour.
	mkRefs := func(inline bool) []c15Ref {
		var refs []c15Ref
		switch {
		case cs.Writer == "v1-writecar":
			// merkledag walk: modelled by reach() below, no load-order reference
		case isV1:
			refs = []c15Ref{c15CachedReference(x, ctx, d, cs, dags, cs.Once, budget, false, true, inline)}
			if len(dags) > 1 && budget >= 0 {
				// one budget per Dag or one for the whole car: either reading of MaxTraversalLinks is accepted
				refs = append(refs, c15CachedReference(x, ctx, d, cs, dags, cs.Once, budget, true, true, inline))
			}
		default:
			if cs.Opts.AllowDup {
				// the option is documented as ignored by the v2 root package and implemented as link-visit-once off: either is accepted
				refs = append(refs, c15CachedReference(x, ctx, d, cs, dags, false, budget, false, cs.Chooser, inline))
			}
			refs = append(refs, c15CachedReference(x, ctx, d, cs, dags, true, budget, false, cs.Chooser, inline))
		}
		return refs
	}
	refs := mkRefs(false)
	var refFails, refSucceeds bool
	inlineIdent := false // the current pass did not ask the store for the identity node
	useRefs := func(log []int) {
		inlineIdent = d.ident >= 0 && !st.askedIdent
		refs = mkRefs(inlineIdent)
		refFails, refSucceeds = false, false
		for _, r := range refs {
			if r.err != nil {
				refFails = true
			} else {
				refSucceeds = true
			}
		}
	}
	sameLog := func(a, b []int) bool {
		if len(a) != len(b) {
			return false
		}
		for i := range a {
			if a[i] != b[i] {
				return false
			}
		}
		return true
	}

	// failed: the writer returned err after loading log. Returns true when that is a legal refusal.
	failed := func(err error, log []int, what string) {
		useRefs(log)
		x.Outcome("refused")
		if cs.Writer == "v1-writecar" {
			x.Fail("c15:unexpected-error:"+tag, "%s failed although every reachable node is served or ignorable: %v", what, err)
			return
		}
		if errors.Is(err, carv2.ErrSizeMismatch) {
			x.Count("refused-size-mismatch", 1)
			// the counting pass and the writing pass must agree on every DAG: a block that is loaded twice (repeated
			// link with link-visit-once off, repeated chunk behind a LargeBytesNode) is still written, and counted, once
			if !hasRepeats(log) {
				x.Fail("c15:size-mismatch:"+tag, "%s: ErrSizeMismatch although the writing pass loaded every block once (log %v)", what, log)
				if defaultCfg {
					x.Fail("c15:unexpected-error:"+tag, "writer failed with default traversal options: %v", err)
				}
				return
			}
			x.Fail("c15:size-mismatch-repeated-load:"+tag, "%s: ErrSizeMismatch on a DAG whose traversal loads a block more than once (loads %v): the size announced by the counting pass differs from the bytes written", what, log)
			return
		}
		if !refFails {
			if defaultCfg || (isV1 && budget < 0) {
				x.Fail("c15:unexpected-error:"+tag, "writer failed with default traversal options: %v", err)
			} else {
				x.Fail("c15:unexpected-error:"+tag, "%s failed (%v) although the reference traversal succeeds within the budget (loads %v)", what, err, refs[len(refs)-1].log)
			}
			return
		}
		x.Count("refused-traversal-error", 1)
		for _, r := range refs {
			if r.err != nil && sameLog(r.log, log) {
				return
			}
		}
		// which blocks were read before a legal refusal is not part of the statement
		x.Outcome("beyond-statement:c15:error-log:" + tag)
	}

	// succeeded: a successful pass must have loaded the nodes a reference traversal loads (as a set: the number and the
	// order of the reads of the store are the writer's business; a log that differs is recorded as an outcome)
	succeeded := func(log []int, what string) {
		useRefs(log)
		if cs.Writer == "v1-writecar" {
			return
		}
		if !refSucceeds {
			x.Fail("c15:budget-ignored:"+tag, "%s succeeded (loads %v) although the traversal must fail: %v", what, log, refs[0].err)
			return
		}
		for _, r := range refs {
			if r.err == nil && sameLog(r.log, log) {
				return
			}
		}
		for _, r := range refs {
			if r.err == nil && sameLoadSet(r.log, log) {
				x.Outcome("beyond-statement:c15:load-log:" + tag)
				return
			}
		}
		x.Fail("c15:traversal:"+tag, "%s loaded %v; the reference traversal loads %v", what, log, refs[len(refs)-1].log)
	}

	checkPayload := func(payload []byte, writeLog []int, what string) *refcar.Payload {
		pl, err := refcar.DecodePayload(payload, false, true)
		if err != nil {
			x.Fail("c15:payload-malformed:"+tag, "%s: payload not well-formed: %v", what, err)
			return nil
		}
		// the distinct roots (the statement does not say whether a root shared by several Dags is listed once or per Dag, nor in which order)
		if !sameRoots(rootSet(pl.Header.Roots), rootSet(wantRoots)) {
			x.Fail("c15:roots:"+tag, "%s: roots %x want the traversal root(s) %x", what, pl.Header.Roots, wantRoots)
		} else if !sameRoots(pl.Header.Roots, wantRoots) {
			x.Outcome("beyond-statement:c15:roots-list:" + tag)
		}
		want := firstVisit(writeLog)
		var got []int
		for _, s := range pl.Sections {
			i, ok := d.byCid[string(s.Cid)]
			if !ok {
				x.Fail("c15:unknown-block:"+tag, "%s: output holds a block that is not in the DAG", what)
				return pl
			}
			if !bytes.Equal(s.Data, d.data[i]) {
				x.Fail("c15:block-data:"+tag, "%s: section of node %d holds %x want %x", what, i, clip(s.Data), clip(d.data[i]))
			}
			got = append(got, i)
		}
		if inlineIdent {
			// the identity block was loaded without the store: the blocks the store served must be in the first-visit
			// order of the log; the identity block at most once, at the place where a reference walk that produces this
			// log visits it first (no such walk: its place is not asserted)
			var rest []int
			n := 0
			for _, i := range got {
				if i == d.ident {
					n++
				} else {
					rest = append(rest, i)
				}
			}
			if n > 1 || !sameLog(rest, want) {
				x.Fail("c15:blocks:"+tag, "%s: output blocks %v; the store served (first-visit order) %v and was not asked for the identity-CID node %d", what, got, want, d.ident)
			} else {
				placed, match := false, false
				for _, r := range refs {
					if r.err == nil && sameLog(r.log, writeLog) {
						placed = true
						match = match || sameLog(got, firstVisit(r.full))
					}
				}
				if placed && !match {
					x.Fail("c15:blocks:"+tag, "%s: output blocks %v; the reference walk with these store reads %v visits first %v", what, got, writeLog, firstVisit(refs[len(refs)-1].full))
				}
				x.Outcome("identity-block-inline")
			}
		} else if !sameLog(got, want) {
			x.Fail("c15:blocks:"+tag, "%s: output blocks %v; the traversal loaded (first-visit order) %v; full load log %v", what, got, want, writeLog)
		}
		// absolute expectation from the adjacency lists (hand model), where the walk is order independent
		if budget < 0 {
			var model map[int]bool
			allSel := true
			fieldSel := true
			for _, dg := range dags {
				allSel = allSel && dg.sel == "all"
				fieldSel = fieldSel && dg.sel == "field-a"
			}
			switch {
			case allSel:
				drop := -1
				if cs.Walker == "skip1" {
					drop = 1
				}
				miss := missing
				if inlineIdent && miss == d.ident {
					miss = -1 // an identity block that is not asked of the store cannot be absent
				}
				model = d.reach(rootIdx, miss, drop)
			case fieldSel:
				model = map[int]bool{}
				for _, r := range rootIdx {
					model[r] = true
					if len(d.kids[r]) > 0 && (d.kids[r][0] != missing || (inlineIdent && missing == d.ident)) {
						model[d.kids[r][0]] = true
					}
				}
			}
			if model != nil {
				gs := map[int]bool{}
				for _, i := range got {
					gs[i] = true
				}
				if !sameLog(sortedKeys(gs), sortedKeys(model)) {
					x.Fail("c15:reach:"+tag, "%s: output holds nodes %v; selector %s from roots %v selects %v (children %v, missing %d)", what, sortedKeys(gs), cs.Sel, rootIdx, sortedKeys(model), d.kids, missing)
				}
			}
		}
		return pl
	}
	var opts []carv2.Option
	o := cs.Opts
	opts = o.List()
	if budget >= 0 {
		opts = append(opts, carv2.MaxTraversalLinks(uint64(budget)))
	}
	// a CID longer than the default MaxIndexCidSize (the identity-CID roots of the header sweep) may be refused by a
	// writer that builds an index (documented: ErrCidTooLarge); the limit is lifted so that the writer has to succeed
	if !o.NoIndex && o.MaxCid == 0 {
		longest := 0
		for _, c := range d.cids {
			if len(c) > longest {
				longest = len(c)
			}
		}
		if longest > carv2.DefaultMaxIndexCidSize {
			opts = append(opts, carv2.MaxIndexCidSize(uint64(longest)))
		}
	}
	if cs.Chooser {
		opts = append(opts, carv2.WithTraversalPrototypeChooser(dagpb.AddSupportToChooser(c15BasicChooser)))
	}
	checkV2 := func(file []byte, writeLog []int, what string) {
		fl, err := refcar.DecodeFile(file, false)
		if err != nil {
			x.Fail("c15:file-malformed:"+tag, "%s: output is not a well-formed CARv2: %v", what, err)
			return
		}
		if fl.Version != 2 {
			x.Fail("c15:file-version:"+tag, "%s: not a CARv2", what)
			return
		}
		if fl.V2.DataOffset != 51+o.DataPad {
			x.Fail("c15:data-offset:"+tag, "%s: DataOffset %d want %d", what, fl.V2.DataOffset, 51+o.DataPad)
		}
		if fl.V2.DataSize != fl.Payload.End {
			x.Fail("c15:data-size:"+tag, "%s: header DataSize %d but the payload has %d bytes", what, fl.V2.DataSize, fl.Payload.End)
		}
		checkPayload(fl.PayloadRaw, writeLog, what)
		if o.NoIndex {
			if fl.HasIndex {
				x.Fail("c15:index-present:"+tag, "%s: index written despite WithoutIndex", what)
			}
		} else {
			if !fl.HasIndex {
				x.Fail("c15:index-missing:"+tag, "%s: no index", what)
			} else {
				if fl.V2.IndexOffset != fl.V2.DataOffset+fl.V2.DataSize+o.IndexPad {
					x.Fail("c15:index-offset:"+tag, "%s: IndexOffset %d want %d", what, fl.V2.IndexOffset, fl.V2.DataOffset+fl.V2.DataSize+o.IndexPad)
				}
				if fl.IndexCodec != codecNum(o) {
					x.Fail("c15:index-codec:"+tag, "%s: index codec 0x%x written, 0x%x requested", what, fl.IndexCodec, codecNum(o))
				}
				// identity CIDs: present (at the right offset) or absent are both accepted
				g := recMultiset(fl.IndexCodec, fl.Index)
				w1 := recMultiset(fl.IndexCodec, refcar.RecordsOf(fl.Payload, true))
				w2 := recMultiset(fl.IndexCodec, refcar.RecordsOf(fl.Payload, false))
				if g != w1 && g != w2 {
					x.Fail("c15:index-records:"+tag, "%s: index {%s} want {%s}", what, g, w1)
				}
			}
		}
	}
	switch cs.Writer {
	case "v2-selective":
		ls := st.linkSystem()
		w, err := carv2.NewSelectiveWriter(ctx, &ls, root, sel, opts...)
		if err != nil {
			failed(err, st.log, "NewSelectiveWriter (counting pass)")
			return
		}
		st.log, st.askedIdent = nil, false // from here on: the writing pass
		var buf bytes.Buffer
		n, err := w.WriteTo(&buf)
		x.Transition(len(st.log))
		if n != int64(buf.Len()) {
			x.Fail("c15:returned-count:"+tag, "WriteTo returned %d (err %v) but wrote %d bytes", n, err, buf.Len())
		}
		if err != nil {
			failed(err, st.log, "NewSelectiveWriter.WriteTo")
			return
		}
		succeeded(st.log, "NewSelectiveWriter.WriteTo")
		checkV2(buf.Bytes(), st.log, "NewSelectiveWriter.WriteTo")
	case "v2-traversev1":
		ls := st.linkSystem()
		var buf bytes.Buffer
		n, err := carv2.TraverseV1(ctx, &ls, root, sel, &buf, opts...)
		x.Transition(len(st.log))
		// on failure the count has no documented meaning (unlike io.WriterTo's)
		if err == nil && n != uint64(buf.Len()) {
			x.Fail("c15:returned-count:"+tag, "TraverseV1 returned %d (err %v) but wrote %d bytes", n, err, buf.Len())
		} else if n != uint64(buf.Len()) {
			x.Outcome("beyond-statement:c15:returned-count-on-error:" + tag)
		}
		if err != nil {
			failed(err, st.log, "TraverseV1")
			return
		}
		succeeded(st.log, "TraverseV1")
		checkPayload(buf.Bytes(), st.log, "TraverseV1")
	case "v2-tofile":
		ls := st.linkSystem()
		p := filepath.Join(x.Dir, "c15.car")
		os.Remove(p)
		defer os.Remove(p)
		if cs.Prefill {
			if err := os.WriteFile(p, bytes.Repeat([]byte{0xee}, 8192), 0o644); err != nil {
				panic(err)
			}
		}
		err := carv2.TraverseToFile(ctx, &ls, root, sel, p, opts...)
		x.Transition(len(st.log))
		if err != nil {
			failed(err, st.log, "TraverseToFile")
			return
		}
		succeeded(st.log, "TraverseToFile")
		b, _ := os.ReadFile(p)
		checkV2(b, st.log, "TraverseToFile")
	case "v1-writecar":
		var buf bytes.Buffer
		var wopts []merkledag.WalkOption
		if cs.Missing > 0 {
			st.notFound = true
			wopts = append(wopts, merkledag.IgnoreMissing())
		}
		var err error
		if cs.Walker == "skip1" {
			c1 := mustCid(d.cids[1])
			err = carv1.WriteCarWithWalker(ctx, c15NodeGetter{st}, rootCids, &buf, func(nd format.Node) ([]*format.Link, error) {
				var out []*format.Link
				for _, l := range nd.Links() {
					if !l.Cid.Equals(c1) {
						out = append(out, l)
					}
				}
				return out, nil
			}, wopts...)
		} else {
			err = carv1.WriteCar(ctx, c15NodeGetter{st}, rootCids, &buf, wopts...)
		}
		x.Transition(len(st.log))
		if err != nil {
			failed(err, st.log, "WriteCar")
			return
		}
		checkPayload(buf.Bytes(), st.log, "WriteCar")
	case "v1-selective", "v1-prepare-dump":
		var ropts []carv1.Option
		if cs.Once {
			ropts = append(ropts, carv1.TraverseLinksOnlyOnce())
		}
		if budget >= 0 {
			ropts = append(ropts, carv1.MaxTraversalLinks(uint64(budget)))
		}
		var cdags []carv1.Dag
		for _, dg := range dags {
			cdags = append(cdags, carv1.Dag{Root: mustCid(d.cids[dg.root]), Selector: c15Selector(dg.sel, cs.Codec)})
		}
		sc := carv1.NewSelectiveCar(ctx, st, cdags, ropts...)
		var buf bytes.Buffer
		type cb struct {
			c         []byte
			off, size uint64
			data      []byte
		}
		ncb := 1
		switch cs.Cbs {
		case "none":
			ncb = 0
		case "two":
			ncb = 2
		}
		mkCbs := func() ([]*[]cb, []carv1.OnNewCarBlockFunc) {
			var lists []*[]cb
			var fns []carv1.OnNewCarBlockFunc
			for i := 0; i < ncb; i++ {
				l := &[]cb{}
				lists = append(lists, l)
				fns = append(fns, func(b carv1.Block) error {
					*l = append(*l, cb{b.BlockCID.Bytes(), b.Offset, b.Size, append([]byte{}, b.Data...)})
					return nil
				})
			}
			return lists, fns
		}
		lists, fns := mkCbs()
		err := sc.Write(&buf, fns...)
		x.Transition(len(st.log))
		if err != nil {
			failed(err, st.log, "SelectiveCar.Write")
			return
		}
		writeLog := st.log
		succeeded(writeLog, "SelectiveCar.Write")
		pl := checkPayload(buf.Bytes(), writeLog, "SelectiveCar.Write")
		checkCbs := func(lists []*[]cb, what string) {
			if pl == nil {
				return
			}
			// every call must report the section of its block truly and every section must be reported to every
			// callback; calls are matched to sections by CID (each CID is written once, see c15:blocks), so that a
			// callback which is told about a block more than once, or in another order, is an outcome only
			secOf := map[string]int{}
			for i, s := range pl.Sections {
				if _, dup := secOf[string(s.Cid)]; !dup {
					secOf[string(s.Cid)] = i
				}
			}
			for k, l := range lists {
				cbs := *l
				calls := make([]int, len(pl.Sections))
				inOrder := len(cbs) == len(pl.Sections)
				for i, c := range cbs {
					j, ok := secOf[string(c.c)]
					if !ok {
						x.Fail("c15:callback-offsets:"+tag, "%s: callback #%d call %d reports block %x (offset %d size %d) which is not a section of the output", what, k, i, clip(c.c), c.off, c.size)
						continue
					}
					s := pl.Sections[j]
					calls[j]++
					inOrder = inOrder && i == j
					if c.off != s.Offset || c.size != s.Len {
						x.Fail("c15:callback-offsets:"+tag, "%s: callback #%d call %d reports offset %d size %d; the section is at %d with size %d", what, k, i, c.off, c.size, s.Offset, s.Len)
					}
					if !bytes.Equal(c.data, s.Data) {
						x.Fail("c15:callback-data:"+tag, "%s: callback #%d call %d carries data %x; the section holds %x", what, k, i, clip(c.data), clip(s.Data))
					}
				}
				for j, n := range calls {
					if n == 0 {
						x.Fail("c15:callback-count:"+tag, "%s: callback #%d called %d times for %d sections: never for section %d", what, k, len(cbs), len(pl.Sections), j)
						break
					}
				}
				if !inOrder {
					x.Outcome("beyond-statement:c15:callback-calls:" + tag)
				}
			}
		}
		checkCbs(lists, "Write")
		if cs.Writer == "v1-prepare-dump" {
			st.log, st.askedIdent = nil, false
			lists2, fns2 := mkCbs()
			prep, err := sc.Prepare(fns2...)
			if err != nil {
				x.Fail("c15:prepare-error:"+tag, "Prepare failed (%v) although Write of the same SelectiveCar succeeded", err)
				return
			}
			succeeded(st.log, "SelectiveCar.Prepare")
			if prep.Size() != uint64(buf.Len()) {
				x.Fail("c15:prepare-size:"+tag, "Prepare().Size()=%d but Write produced %d bytes", prep.Size(), buf.Len())
			}
			if pl != nil {
				var hr [][]byte
				for _, c := range prep.Header().Roots {
					hr = append(hr, c.Bytes())
				}
				if !sameRoots(hr, pl.Header.Roots) || prep.Header().Version != 1 {
					x.Fail("c15:prepare-header:"+tag, "Prepare().Header() = roots %x version %d; the header written has roots %x version 1", hr, prep.Header().Version, pl.Header.Roots)
				}
				var pc, sc [][]byte
				for _, c := range prep.Cids() {
					pc = append(pc, c.Bytes())
				}
				for _, s := range pl.Sections {
					sc = append(sc, s.Cid)
				}
				if !sameRoots(pc, sc) {
					x.Fail("c15:prepare-cids:"+tag, "Prepare().Cids() = %x; the sections written are %x", pc, sc)
				}
			}
			var dump bytes.Buffer
			if err := prep.Dump(ctx, &dump); err != nil {
				x.Fail("c15:dump-error:"+tag, "Dump failed: %v", err)
				return
			}
			if !bytes.Equal(dump.Bytes(), buf.Bytes()) {
				x.Fail("c15:dump-differs:"+tag, "Dump and Write produce different bytes (%d vs %d)", dump.Len(), buf.Len())
			}
			checkCbs(lists2, "Dump")
		}
	}
	stateKey := fmt.Sprintf("%+v", cs)
	x.State(stateKey)
	x.Outcome("written")
	repeated := false
	for _, m := range cs.Mult {
		if m > 1 {
			repeated = true
		}
	}
	if repeated || cs.N >= 3 || cs.Dup0 > 0 || cs.IdentLen > 0 {
		x.Nontrivial(stateKey)
	}
	if cs.Big > 0 {
		x.Count("size-class-section-cases", 1)
	}
	if cs.IdentLen > 0 {
		x.Count("size-class-header-cases", 1)
	}
}

// c15Tiers: DAGs with up to maxN nodes get the core matrix; the added dimensions are fully crossed up to fullN nodes
// and run as a reduced matrix on the maxN-node DAGs.
func c15Tiers(tier string) (maxN, fullN int) {
	if tier == "thorough" {
		return 5, 4
	}
	return 4, 3
}

func genC15(tier string, emit func(any)) {
	maxN, fullN := c15Tiers(tier)
	type variant struct{ codec, leaf string }
	core := []variant{{"", ""}, {"", "raw"}}
	extra := []variant{{"", "twin"}, {"", "ident"}, {"", "raw0"}, {"pb", ""}, {"pb", "raw"}, {"pb", "twin"}, {"pb", "ident"}, {"pb", "raw0"}}
	sels := []string{"all", "depth1", "depth2", "field-a"}
	v2writers := []string{"v2-selective", "v2-traversev1", "v2-tofile"}
	type pc struct {
		dp, ip uint64
		codec  string
		noidx  bool
	}
	pcs := []pc{{}, {dp: 3, ip: 2, codec: "sorted"}, {noidx: true}}
	popts := func(p pc, dup bool) drv.Opts {
		return drv.Opts{AllowDup: dup, DataPad: p.dp, IndexPad: p.ip, Codec: p.codec, NoIndex: p.noidx}
	}
	mkBase := func(n int, mult []int, v variant, sel string) C15Case {
		cs := C15Case{N: n, Mult: mult, Codec: v.codec, Sel: sel}
		if v.leaf == "raw" {
			cs.RawLeaf = true
		} else {
			cs.Leaf = v.leaf
		}
		return cs
	}
	altSel := func(sel string) string {
		if sel == "all" {
			return "field-a"
		}
		return "all"
	}

	// the original matrix
	emitCore := func(base C15Case) {
		for _, w := range v2writers {
			for _, dup := range []bool{false, true} {
				for _, budget := range []uint64{0, 1, 2} {
					ps := pcs
					if budget > 0 || w == "v2-traversev1" {
						ps = pcs[:1]
					}
					for _, p := range ps {
						cs := base
						cs.Writer, cs.Opts, cs.Budget = w, popts(p, dup), budget
						emit(cs)
					}
				}
			}
		}
		if base.Sel == "all" {
			cs := base
			cs.Writer = "v1-writecar"
			emit(cs)
		}
		for _, w := range []string{"v1-selective", "v1-prepare-dump"} {
			for _, once := range []bool{false, true} {
				for _, budget := range []uint64{0, 2} {
					cs := base
					cs.Writer, cs.Once, cs.Budget = w, once, budget
					emit(cs)
				}
			}
		}
	}

	// the added dimensions, fully crossed (core leaf kinds)
	emitFull := func(base C15Case) {
		n := base.N
		for _, w := range v2writers {
			for _, dup := range []bool{false, true} {
				cs := base
				cs.Writer, cs.Opts, cs.Budget0 = w, popts(pcs[0], dup), true
				emit(cs)
				for k := 1; k < n; k++ {
					for _, budget := range []uint64{0, 1} {
						cs := base
						cs.Writer, cs.Opts, cs.Budget, cs.Missing = w, popts(pcs[0], dup), budget, k
						emit(cs)
					}
				}
				if w == "v2-tofile" {
					for _, p := range pcs {
						cs := base
						cs.Writer, cs.Opts, cs.Prefill = w, popts(p, dup), true
						emit(cs)
					}
				}
				if w == "v2-traversev1" {
					// padding / index options have no meaning for a CARv1: the output must not depend on them
					for _, p := range pcs[1:] {
						cs := base
						cs.Writer, cs.Opts = w, popts(p, dup)
						emit(cs)
					}
				}
			}
		}
		if base.Sel == "all" {
			for root2 := 0; root2 <= n; root2++ {
				for _, walker := range []string{"", "skip1"} {
					if walker != "" && n < 2 {
						continue
					}
					for k := 0; k < n; k++ {
						if root2 == 0 && walker == "" && k == 0 {
							continue // core
						}
						cs := base
						cs.Writer, cs.Root2, cs.Walker, cs.Missing = "v1-writecar", root2, walker, k
						emit(cs)
					}
				}
			}
		}
		for _, w := range []string{"v1-selective", "v1-prepare-dump"} {
			for _, once := range []bool{false, true} {
				for root2 := 1; root2 <= n; root2++ {
					for _, sel2 := range []string{"", altSel(base.Sel)} {
						for _, budget := range []uint64{0, 2} {
							cs := base
							cs.Writer, cs.Once, cs.Budget, cs.Root2, cs.Sel2 = w, once, budget, root2, sel2
							emit(cs)
						}
					}
				}
				cs := base
				cs.Writer, cs.Once, cs.Budget0 = w, once, true
				emit(cs)
				for _, cbs := range []string{"none", "two"} {
					for _, root2 := range []int{0, n} {
						cs := base
						cs.Writer, cs.Once, cs.Cbs, cs.Root2 = w, once, cbs, root2
						emit(cs)
					}
				}
				for k := 1; k < n; k++ {
					for _, root2 := range []int{0, k + 1} {
						cs := base
						cs.Writer, cs.Once, cs.Missing, cs.Root2 = w, once, k, root2
						emit(cs)
					}
				}
			}
		}
	}

	// the added dimensions, reduced (largest DAGs)
	emitLite := func(base C15Case) {
		n := base.N
		for _, w := range v2writers {
			cs := base
			cs.Writer, cs.Budget0 = w, true
			emit(cs)
		}
		cs := base
		cs.Writer, cs.Missing = "v2-selective", n-1
		emit(cs)
		cs = base
		cs.Writer, cs.Prefill = "v2-tofile", true
		emit(cs)
		cs = base
		cs.Writer, cs.Once, cs.Missing = "v1-selective", true, n-1
		emit(cs)
		for _, root2 := range []int{1, n} {
			for _, once := range []bool{false, true} {
				cs := base
				cs.Writer, cs.Once, cs.Root2 = "v1-selective", once, root2
				emit(cs)
			}
			if base.Sel == "all" {
				cs := base
				cs.Writer, cs.Root2 = "v1-writecar", root2
				emit(cs)
			}
		}
		if base.Sel == "all" {
			cs := base
			cs.Writer, cs.Walker = "v1-writecar", "skip1"
			emit(cs)
		}
		cs = base
		cs.Writer, cs.Cbs, cs.Root2 = "v1-prepare-dump", "two", n
		emit(cs)
	}

	// the added leaf kinds and the dag-pb DAGs
	emitVariant := func(base C15Case, full bool) {
		n := base.N
		pb := base.Codec == "pb"
		if !full {
			for _, w := range v2writers {
				cs := base
				cs.Writer = w
				emit(cs)
			}
			if pb {
				cs := base
				cs.Writer, cs.Chooser = "v2-selective", true
				emit(cs)
			}
			cs := base
			cs.Writer = "v1-writecar"
			emit(cs)
			cs = base
			cs.Writer = "v1-selective"
			emit(cs)
			cs = base
			cs.Writer, cs.Once = "v1-prepare-dump", true
			emit(cs)
			return
		}
		for _, w := range v2writers {
			for _, dup := range []bool{false, true} {
				for _, chooser := range []bool{false, true} {
					if chooser && !pb {
						continue
					}
					for _, p := range pcs {
						cs := base
						cs.Writer, cs.Opts, cs.Chooser = w, popts(p, dup), chooser
						emit(cs)
					}
					cs := base
					cs.Writer, cs.Opts, cs.Chooser, cs.Budget = w, popts(pcs[0], dup), chooser, 1
					emit(cs)
					if n > 1 {
						cs = base
						cs.Writer, cs.Opts, cs.Chooser, cs.Missing = w, popts(pcs[0], dup), chooser, n-1
						emit(cs)
					}
				}
			}
		}
		if base.Sel == "all" {
			for _, root2 := range []int{0, n} {
				cs := base
				cs.Writer, cs.Root2 = "v1-writecar", root2
				emit(cs)
			}
		}
		for _, w := range []string{"v1-selective", "v1-prepare-dump"} {
			for _, once := range []bool{false, true} {
				for _, budget := range []uint64{0, 2} {
					cs := base
					cs.Writer, cs.Once, cs.Budget = w, once, budget
					emit(cs)
				}
				cs := base
				cs.Writer, cs.Once, cs.Root2 = w, once, n
				emit(cs)
				if n > 1 {
					cs = base
					cs.Writer, cs.Once, cs.Missing = w, once, n-1
					emit(cs)
				}
			}
		}
	}

	// the LargeBytesNode selector (v2 writers; lazily loaded children)
	emitBytes := func(base C15Case) {
		base.Sel = "bytes"
		for _, w := range v2writers {
			for _, dup := range []bool{false, true} {
				for _, p := range pcs {
					cs := base
					cs.Writer, cs.Opts = w, popts(p, dup)
					emit(cs)
				}
			}
		}
	}

	for n := 1; n <= maxN; n++ {
		pairs := n * (n - 1) / 2
		total := 1
		for i := 0; i < pairs; i++ {
			total *= 3
		}
		full := n <= fullN
		for code := 0; code < total; code++ {
			mult := make([]int, pairs)
			cc := code
			for i := range mult {
				mult[i] = cc % 3
				cc /= 3
			}
			// reduced matrix of the added dimensions: every DAG up to 4 nodes; of the 5-node DAGs those whose
			// links all have the same multiplicity (2047 of 59049)
			lite := !full
			if lite && n > 4 {
				has := [3]bool{}
				for _, m := range mult {
					has[m] = true
				}
				lite = !(has[1] && has[2])
			}
			for _, v := range core {
				if v.leaf != "" && n == 1 {
					continue
				}
				for _, sel := range sels {
					base := mkBase(n, mult, v, sel)
					emitCore(base)
					if full {
						emitFull(base)
					} else if lite {
						emitLite(base)
					}
				}
				if full {
					emitBytes(mkBase(n, mult, v, "bytes"))
				}
			}
			for _, v := range extra {
				if v.leaf != "" && n == 1 {
					continue
				}
				if full {
					for _, sel := range sels {
						emitVariant(mkBase(n, mult, v, sel), true)
					}
					if v.codec == "pb" && v.leaf == "raw" {
						emitBytes(mkBase(n, mult, v, "bytes"))
					}
				} else if lite {
					emitVariant(mkBase(n, mult, v, "all"), false)
				}
			}
		}
	}
	// size classes: section lengths and header lengths across the varint width boundaries (c15_m5.go)
	genC15Sized(tier, emit)
}

func init() {
	kit.Register(&kit.Prop{
		ID:     "C15",
		Gen:    genC15,
		Run:    runC15,
		Decode: kit.DecodeAs[C15Case],
		Rule: "every DAG with up to N nodes (upper-triangular adjacency, link multiplicity 0/1/2 per pair; hand-encoded dag-cbor/CIDv1 or dag-pb/CIDv0; last node: same codec | 100-byte raw | raw twin of node N-2 (same multihash, other codec) | identity-CID raw | zero-length raw) " +
			"x selector {explore-all, 2 depth limits, first-field path, InterpretAs->LargeBytesNode whose byte stream loads the children lazily (v2)} " +
			"x writer {NewSelectiveWriter.WriteTo, TraverseV1, TraverseToFile (fresh / pre-existing longer file), root WriteCar, WriteCarWithWalker (walk func dropping links), SelectiveCar.Write, Prepare+Dump} " +
			"x {link-visit-once on/off, link budget none/0/1/2, paddings, index codec/none, dag-pb prototype chooser, second root/Dag (every node incl. the same root, own selector), 0/1/2 block callbacks, one node absent from the store (SkipMe / IgnoreMissing)}; " +
			"core matrix on all DAGs up to N nodes, added dimensions fully crossed up to N-1 nodes and as a reduced matrix on the N-node DAGs (N=5: only on the 2047 DAGs whose links all have the same multiplicity; see genC15); " +
			"oracle: (1) independent log of the loads of the writing pass: output blocks = first-visit order of the log, each once, bytes intact; (2) the set of nodes loaded equals that of a reference ipld-prime walk run without go-car (same selector, link-visit-once, budget; number and order of the store reads are recorded, not asserted), an error is legal only where a reference walk fails too (the loads before the refusal are recorded, not asserted), ErrSizeMismatch never; " +
			"(3) hand model from the adjacency lists for explore-all / first-field / merkledag walks: set of output blocks = reachable set; (4) announced sizes = bytes written (DataSize, Prepare().Size(), WriteTo's count also on error, TraverseV1's count on success), header roots = the distinct Dag roots, Prepare().Header()/Cids() = header/sections written, Dump = Write, every callback call's offset/size/data = those of the section of its block and every section is reported to every callback, index codec = requested, index = sections; " +
			"size classes (all blocks of the matrix above are 3..~400 bytes, its headers 58..~100 bytes; explore-all selector, no budget): " +
			"(A) section length (CID bytes + data) of one padded node = every value of B-40..B+40 for each boundary B of the varint width of the length prefix that a legal section reaches (2^7, 2^14, 2^21) x the padded node is the root / the middle / the last block of a 3-node DAG {fan, chain, diamond} x {dag-cbor/CIDv1 36-byte CIDs, dag-pb/CIDv0 34-byte CIDs} x last node {same codec, raw} " +
			"x every entry point {WriteCar; SelectiveCar.Write link-visit-once on/off; Prepare+Dump link-visit-once on/off x 1/2 callbacks; 3 v2 writers x {default, paddings+sorted index, no index} (thorough: x AllowDuplicatePuts)}; reduced matrix at 2^21 (2 MiB blocks): the fan DAG with {dag-cbor + raw last node, dag-pb} in every configuration (quick tier: one configuration per entry point, 6), the other shapes / codec variants in the thorough tier only, one configuration per entry point; lengths that no encoding of the node reaches (a dag-pb leaf at the width steps of its Data length) are skipped; " +
			"(B) header body length = every value of B-40..B+40 for B = 2^7, 2^14: root module {WriteCar, Write, Prepare+Dump as above} with 1..~420 Dags at the root of a 2-node DAG plus one Dag at an identity-CID leaf of 1..64 data bytes (dag-cbor and dag-pb), and every entry point (root module and v2) on an identity-CID block of 1..16400 bytes as the only node and root; " +
			"the margin 40 exceeds the longest CID (36), so that a rule using the width of the data length, or of the CID-less length, instead of CID + data is inside the sweep; (A) and (B) are not crossed with each other nor with the selector / budget / missing-node dimensions; " +
			"non-trivial = DAG with >= 3 nodes or a repeated link, or a size-class case",
		Bound: func(tier string) map[string]any {
			maxN, fullN := c15Tiers(tier)
			return map[string]any{"nodes": maxN, "nodes_full_cross_of_added_dimensions": fullN, "link_multiplicity": 2, "selectors": 5, "writers": 7, "node_codecs": 2, "leaf_kinds": 5, "link_budgets": []any{"none", 0, 1, 2},
				"section_length_boundaries": c15SectBoundaries, "header_length_boundaries": c15HeaderBoundaries, "length_margin": c15Margin,
				"largest_block_bytes": 1<<21 + c15Margin, "largest_root_count": (1<<14+c15Margin)/39 + 2, "not_explored": "section length 2^28 (above the 32 MiB go-car's readers accept), header length 2^21 (~51000 roots)"}
		},
		Assumptions: []string{"for DAGs whose longest CID exceeds the default MaxIndexCidSize the option is raised to that length (the documented limit is not the subject); an identity block served from its digest without asking the store is completed in the load log",
			"hand-written dag-cbor and dag-pb encoders",
			"the reference traversal is ipld-prime's own walker driven directly by the harness (go-ipld-prime is trusted, go-car is not)",
			"v2 AllowDuplicatePuts (documented as ignored by the v2 root package, implemented as link-visit-once off): either traversal is accepted",
			"a traversal that loads some block more than once (link-visit-once off, lazy loads behind a LargeBytesNode) writes and counts it once",
			"identity-CID blocks may or may not appear in the index written by the v2 traversal writers",
			"depth-limited and first-field selectors on dag-pb count data-model steps (Links/index/Hash): limits 4 and 7 are used for one and two link levels",
			"root module, several Dags with MaxTraversalLinks: one budget per Dag and one budget for the whole car are both accepted (two reference walks)",
			"size classes: padded nodes are a dag-cbor map with a byte-string field, a dag-pb node with a longer Data field, or a raw block; the identity-CID root of the header sweep is served by the store like any other block",
			"not asserted, recorded as beyond-statement outcomes: the exact sequence of store reads (repeats, order across Dags), the loads preceding a legal refusal, TraverseV1's count when it fails, a root shared by several Dags listed once or per Dag and the order of the roots, the number and order of the calls of a block callback",
		},
	})
}
