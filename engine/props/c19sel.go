package props

import (
	"bytes"
	"crypto/sha256"
	"fmt"
	"io"
	"os"
	"path/filepath"
	"strings"

	dagpb "github.com/ipld/go-codec-dagpb"
	"github.com/ipld/go-ipld-prime"
	"github.com/ipld/go-ipld-prime/codec/dagjson"
	"github.com/ipld/go-ipld-prime/datamodel"
	"github.com/ipld/go-ipld-prime/linking"
	cidlink "github.com/ipld/go-ipld-prime/linking/cid"
	"github.com/ipld/go-ipld-prime/node/basicnode"
	"github.com/ipld/go-ipld-prime/traversal"
	"github.com/ipld/go-ipld-prime/traversal/selector"
	"github.com/ipld/go-ipld-prime/traversal/selector/builder"
	selectorparse "github.com/ipld/go-ipld-prime/traversal/selector/parse"

	"verif/drv"
	"verif/kit"
	"verif/refcar"
)

// ---- get-dag --selector over every small DAG --------------------------------------
//
// The request of `car get-dag --selector S in.car ROOT out.car` is the selector walk S from ROOT over
// the blocks of in.car; "what the library computes for the same request" is the sequence of blocks
// that walk loads (each once, in first-load order). With a custom selector one link may be reached
// several times with different selector state (remaining recursion depth, different sub-selector),
// so the block set depends on every encounter being explored, not only the first one.
//
// Dimension: every DAG on n <= N nodes (node 0 = root, links i -> j for i < j, every node reachable
// from the root, link multiplicity 0..M per pair, children listed in ascending or descending node
// order, dag-cbor/CIDv1 or dag-pb/CIDv0 nodes) x a finite selector family x --version 1/2.
// Oracle: go-ipld-prime's own walker, driven by the harness over the same blocks with the selector
// text handed to the CLI (go-ipld-prime is trusted, go-car is not).

// c19SelDag is one DAG of the family.
type c19SelDag struct {
	codec string
	n     int
	cids  [][]byte
	data  [][]byte
	kids  [][]int // child node indices in field order (with repetitions)
	byCid map[string]int
}

// c19SelPairs: number of (i<j) pairs of n nodes.
func c19SelPairs(n int) int { return n * (n - 1) / 2 }

// c19SelBuild builds the DAG: mult[k] = multiplicity of the k-th pair (i<j) in lexicographic order.
func c19SelBuild(codec string, n int, mult []int, desc bool) *c19SelDag {
	d := &c19SelDag{codec: codec, n: n, cids: make([][]byte, n), data: make([][]byte, n), kids: make([][]int, n), byCid: map[string]int{}}
	m := func(i, j int) int {
		k := 0
		for a := 0; a < n; a++ {
			for b := a + 1; b < n; b++ {
				if a == i && b == j {
					return mult[k]
				}
				k++
			}
		}
		return 0
	}
	for i := n - 1; i >= 0; i-- {
		var kids []int
		for j := i + 1; j < n; j++ {
			for c := 0; c < m(i, j); c++ {
				kids = append(kids, j)
			}
		}
		if desc {
			for a, b := 0, len(kids)-1; a < b; a, b = a+1, b-1 {
				kids[a], kids[b] = kids[b], kids[a]
			}
		}
		var links [][]byte
		for _, j := range kids {
			links = append(links, d.cids[j])
		}
		d.kids[i] = kids
		dg := func(b []byte) []byte { r, _ := refcar.Digest(refcar.MhSha256, b); return r }
		if codec == "pb" {
			d.data[i] = c15PBNode(i, links)
			d.cids[i] = refcar.CIDv0(dg(d.data[i]))
		} else {
			d.data[i] = c15Node(i, links)
			d.cids[i] = refcar.CIDv1(refcar.CodecDagCBOR, refcar.MhSha256, dg(d.data[i]))
		}
		d.byCid[string(d.cids[i])] = i
	}
	return d
}

// allReachable: every node is reachable from node 0 (otherwise the DAG is a smaller one of the family).
func (d *c19SelDag) allReachable() bool {
	seen := make([]bool, d.n)
	var walk func(i int)
	walk = func(i int) {
		if seen[i] {
			return
		}
		seen[i] = true
		for _, j := range d.kids[i] {
			walk(j)
		}
	}
	walk(0)
	for _, s := range seen {
		if !s {
			return false
		}
	}
	return true
}

// c19SelUnrelated is stored in every input and linked by nothing.
var c19SelUnrelated = func() refcar.Block {
	data := []byte("c19sel: a block no node links to")
	dg, _ := refcar.Digest(refcar.MhSha256, data)
	return refcar.Block{Cid: refcar.CIDv1(refcar.CodecRaw, refcar.MhSha256, dg), Data: data}
}()

type c19Sel struct{ name, json string }

// c19Selectors: the selector family of a codec for DAGs of up to n nodes. A dag-pb link sits three
// data-model steps below its node (Links / index / Hash), so depth limits sweep 0..3n+1 there and
// 0..n+1 for dag-cbor (one step per link): every value at which one more link level opens, plus
// both ends (0, and one past the longest path so that the limit never binds).
func c19Selectors(codec string, n int) []c19Sel {
	ssb := builder.NewSelectorSpecBuilder(basicnode.Prototype.Any)
	enc := func(name string, s builder.SelectorSpec) c19Sel {
		var buf bytes.Buffer
		if err := dagjson.Encode(s.Node(), &buf); err != nil {
			panic(err)
		}
		return c19Sel{name, buf.String()}
	}
	all := func(lim selector.RecursionLimit) builder.SelectorSpec {
		return ssb.ExploreRecursive(lim, ssb.ExploreAll(ssb.ExploreRecursiveEdge()))
	}
	// child(i, s): explore the i-th link field of a node with s
	child := func(i int, s builder.SelectorSpec) builder.SelectorSpec {
		if codec == "pb" {
			return ssb.ExploreFields(func(e builder.ExploreFieldsSpecBuilder) {
				e.Insert("Links", ssb.ExploreIndex(int64(i), ssb.ExploreFields(func(e builder.ExploreFieldsSpecBuilder) { e.Insert("Hash", s) })))
			})
		}
		return ssb.ExploreFields(func(e builder.ExploreFieldsSpecBuilder) { e.Insert(string(rune('a'+i)), s) })
	}
	out := []c19Sel{
		enc("match", ssb.Matcher()),
		enc("all", all(selector.RecursionLimitNone())),
	}
	step := 1
	if codec == "pb" {
		step = 3
	}
	for d := 0; d <= step*n+1; d++ {
		out = append(out, enc(fmt.Sprintf("depth%d", d), all(selector.RecursionLimitDepth(int64(d)))))
	}
	// the first two link fields of the start node explored with different continuations: every pair
	// of {one block, two blocks, three blocks, no limit} below the field
	type lim struct {
		name string
		l    selector.RecursionLimit
	}
	lims := []lim{{"1", selector.RecursionLimitDepth(1)}, {"2", selector.RecursionLimitDepth(int64(1 + step))}, {"3", selector.RecursionLimitDepth(int64(1 + 2*step))}, {"inf", selector.RecursionLimitNone()}}
	for _, la := range lims {
		for _, lb := range lims {
			out = append(out, enc("fields:"+la.name+","+lb.name, ssb.ExploreUnion(child(0, all(la.l)), child(1, all(lb.l)))))
		}
	}
	// a recursive selector that follows one link field only (first / second child spine), and the
	// union of a shallow explore-all with the first-child spine
	out = append(out,
		enc("spine0", ssb.ExploreRecursive(selector.RecursionLimitNone(), child(0, ssb.ExploreRecursiveEdge()))),
		enc("spine1", ssb.ExploreRecursive(selector.RecursionLimitNone(), child(1, ssb.ExploreRecursiveEdge()))),
		enc("spine1+depth", ssb.ExploreUnion(all(selector.RecursionLimitDepth(int64(1+step))), ssb.ExploreRecursive(selector.RecursionLimitNone(), child(1, ssb.ExploreRecursiveEdge())))),
	)
	return out
}

// c19SelReference runs the selector walk with go-ipld-prime directly (no go-car): the node indices in
// load order. missing >= 0: that node is absent from the store (traversal.SkipMe, as a non-strict
// get-dag answers). typed: dag-pb blocks are decoded into the dag-pb prototype.
func c19SelReference(d *c19SelDag, start int, selJSON string, once, typed bool, missing int) ([]int, error) {
	log, _, err := c19SelReferenceSkips(d, start, selJSON, once, typed, missing)
	return log, err
}

// c19SelReferenceSkips additionally reports whether the walk met a link to the absent block.
func c19SelReferenceSkips(d *c19SelDag, start int, selJSON string, once, typed bool, missing int) (log []int, skipped bool, err error) {
	ls := cidlink.DefaultLinkSystem()
	ls.TrustedStorage = true
	ls.StorageReadOpener = func(_ linking.LinkContext, l datamodel.Link) (io.Reader, error) {
		cl, ok := l.(cidlink.Link)
		if !ok {
			return nil, fmt.Errorf("unknown link type %T", l)
		}
		i, ok := d.byCid[string(cl.Cid.Bytes())]
		if !ok || i == missing {
			skipped = true
			return nil, traversal.SkipMe{}
		}
		log = append(log, i)
		return bytes.NewReader(d.data[i]), nil
	}
	chooser := traversal.LinkTargetNodePrototypeChooser(func(ipld.Link, linking.LinkContext) (ipld.NodePrototype, error) {
		return basicnode.Prototype.Any, nil
	})
	if typed {
		chooser = dagpb.AddSupportToChooser(chooser)
	}
	selNode, err := selectorparse.ParseJSONSelector(selJSON)
	if err != nil {
		return nil, false, err
	}
	sel, err := selector.CompileSelector(selNode)
	if err != nil {
		return nil, false, err
	}
	lnk := cidlink.Link{Cid: mustCid(d.cids[start])}
	np, _ := chooser(lnk, linking.LinkContext{})
	rootNode, err := ls.Load(linking.LinkContext{}, lnk, np)
	if err != nil {
		return log, skipped, err
	}
	prog := traversal.Progress{Cfg: &traversal.Config{LinkSystem: ls, LinkTargetNodePrototypeChooser: chooser, LinkVisitOnlyOnce: once}}
	err = prog.WalkAdv(rootNode, sel, func(traversal.Progress, datamodel.Node, traversal.VisitReason) error { return nil })
	return log, skipped, err
}

func c19SelParse(arg string) (codec string, n int, mult []int, desc bool) {
	p := strings.Split(arg, ":")
	codec = p[0]
	fmt.Sscanf(p[1], "%d", &n)
	for _, c := range p[2] {
		mult = append(mult, int(c-'0'))
	}
	desc = p[3] == "desc"
	return
}

// runC19Sel: Arg = "<cbor|pb>:<n>:<multiplicity digit per pair>:<asc|desc>"; Var tokens: start=<k>
// (explicit start node, default 0), start=implicit (no CID argument: the single header root),
// miss=<k> (node k >= 1 is not stored), rootfirst (block order of the input), strict.
func runC19Sel(x *kit.Ctx, cs C19Case) {
	work := filepath.Join(x.Dir, "c19")
	os.RemoveAll(work)
	os.MkdirAll(work, 0o755)
	defer os.RemoveAll(work)
	codec, n, mult, desc := c19SelParse(cs.Arg)
	d := c19SelBuild(codec, n, mult, desc)
	missing := -1
	if v := c19Var(cs.Var, "miss"); v != "" {
		fmt.Sscanf(v, "%d", &missing)
	}
	start, implicit := 0, false
	switch v := c19Var(cs.Var, "start"); v {
	case "":
	case "implicit":
		implicit = true
	default:
		fmt.Sscanf(v, "%d", &start)
	}
	strict := c19Var(cs.Var, "strict") != ""
	// input: leaves first (or root first), an unrelated block in the middle
	var all []refcar.Block
	for i := n - 1; i >= 0; i-- {
		if i == missing {
			continue
		}
		all = append(all, refcar.Block{Cid: d.cids[i], Data: d.data[i]})
		if i == n/2 {
			all = append(all, c19SelUnrelated)
		}
	}
	if c19Var(cs.Var, "rootfirst") != "" {
		for i, j := 0, len(all)-1; i < j; i, j = i+1, j-1 {
			all[i], all[j] = all[j], all[i]
		}
	}
	payload := refcar.EncodeV1([][]byte{d.cids[0]}, false, all)
	pl, _ := refcar.DecodePayload(payload, false, true)
	in := c19Container(cs.Cont, payload, pl)
	os.WriteFile(filepath.Join(work, "in.car"), in, 0o644)
	x.Transition(1)

	// the acceptors are functions of the file bytes: within one case they run once per distinct output
	validated := map[[32]byte]bool{}
	idx := func(l []int) string { return fmt.Sprint(l) }
	for _, sl := range c19Selectors(codec, n) {
		// the reference answer; dag-pb blocks typed (as both get-dag writers load them) and untyped
		ref, skipped, rerr := c19SelReferenceSkips(d, start, sl.json, false, true, missing)
		want := firstVisit(ref)
		alt := want
		if codec == "pb" {
			ref2, rerr2 := c19SelReference(d, start, sl.json, false, false, missing)
			if rerr2 == nil && idx(firstVisit(ref2)) != idx(want) {
				alt = firstVisit(ref2)
				x.Outcome("get-dag-selector:prototype-sensitive")
			}
		}
		if rerr != nil {
			// the library does not answer this request: nothing to compare with
			x.Outcome("get-dag-selector:library-walk-fails")
			continue
		}
		onceRef, _ := c19SelReference(d, start, sl.json, true, true, missing)
		revisit := idx(firstVisit(onceRef)) != idx(want)
		if revisit {
			// non-vacuity of the dimension: a walk that explores every link at its first encounter only
			// loads fewer blocks for this (DAG, selector)
			x.Outcome("get-dag-selector:revisit-needed")
		}
		for _, ver := range []string{"1", "2"} {
			args := []string{"get-dag", "--version", ver, "--selector", sl.json}
			if strict {
				args = append(args, "--strict")
			}
			args = append(args, "in.car")
			if !implicit {
				args = append(args, cidStr(d.cids[start]))
			}
			args = append(args, "out.car")
			os.Remove(filepath.Join(work, "out.car"))
			r := drv.Car(work, nil, args...)
			x.Eval(1)
			tag := "get-dag-selector:v" + ver
			what := fmt.Sprintf("DAG %s children %v, start %d, selector %s = %s", cs.Arg, d.kids, start, sl.name, sl.json)
			if skipped && (ver == "1" || !strict) && r.Exit != 0 {
				// SelectiveCar has no notion of skipping an absent block; that the CARv2 writer skips one unless
				// --strict is the flag's usage text, not the statement: a refusal emits nothing
				x.Outcome("get-dag-v" + ver + "-missing-link-refused")
				continue
			}
			if skipped && strict && ver == "2" {
				if r.Exit == 0 {
					x.Fail("c19:get-dag-strict:"+tag, "get-dag --strict succeeded although the walk reaches a link whose block is not in the archive (%s)", what)
				}
				x.Outcome("get-dag-strict-refused")
				continue
			}
			if r.Exit != 0 {
				x.Fail("c19:cmd-failed:"+tag, "car get-dag failed (%s): %s", what, clipS(string(r.Stderr), 300))
				continue
			}
			out, _ := os.ReadFile(filepath.Join(work, "out.car"))
			if h := sha256.Sum256(out); !validated[h] {
				validated[h] = true
				c19Validate(x, work, "out.car", tag)
			}
			fl, err := refcar.DecodeFile(out, false)
			if err != nil {
				continue
			}
			var got []int
			bad := false
			for _, sc := range fl.Payload.Sections {
				i, ok := d.byCid[string(sc.Cid)]
				if !ok || !bytes.Equal(sc.Data, d.data[i]) {
					x.Fail("c19:get-dag-selector-blocks:"+tag, "get-dag output holds a section (CID %x, %d bytes) that is not a block of the DAG (%s)", sc.Cid, len(sc.Data), what)
					bad = true
					break
				}
				got = append(got, i)
			}
			if bad {
				continue
			}
			if idx(got) != idx(want) && idx(got) != idx(alt) {
				if idx(sortedInts(got)) != idx(sortedInts(want)) && idx(sortedInts(got)) != idx(sortedInts(alt)) {
					x.Fail("c19:get-dag-selector-blocks:"+tag, "get-dag output holds nodes %v; the library's walk of the same selector loads %v (a walk that follows each link at its first encounter only: %v) (%s)", got, want, firstVisit(onceRef), what)
				} else {
					// same blocks, each as often as the walk loads them, in another order: the statement fixes the
					// order for filter, list and concat only
					x.Outcome("beyond-statement:get-dag-order:" + tag)
				}
			}
			if !sameRoots(fl.Payload.Header.Roots, [][]byte{d.cids[start]}) {
				x.Fail("c19:get-dag-root:"+tag, "get-dag output roots %x, want the start CID (%s)", fl.Payload.Header.Roots, what)
			}
			if (ver == "1") != (fl.Version == 1) {
				x.Fail("c19:get-dag-version:"+tag, "get-dag --version %s wrote a version %d archive", ver, fl.Version)
			}
			x.Nontrivial(fmt.Sprintf("dagsel|%s|%s|%s|%s|%s", cs.Cont, cs.Arg, cs.Var, ver, sl.name))
			if revisit {
				x.Count("get_dag_selector_runs_where_revisit_matters", 1)
			}
		}
	}
	if now, err := os.ReadFile(filepath.Join(work, "in.car")); err != nil || !bytes.Equal(now, in) {
		x.Outcome("beyond-statement:input-modified")
	}
	x.State(fmt.Sprintf("%+v", cs))
	x.Outcome("get-dag-selector")
}

func sortedInts(l []int) []int {
	out := append([]int{}, l...)
	for i := 1; i < len(out); i++ {
		for j := i; j > 0 && out[j-1] > out[j]; j-- {
			out[j-1], out[j] = out[j], out[j-1]
		}
	}
	return out
}

// genC19Sel enumerates the DAG family. maxN nodes with multiplicity <= 1, and multN nodes with
// multiplicity <= 2 (one node linking the same child twice: two fields, two selector states).
func genC19Sel(tier string, emit func(any)) {
	thorough := tier == "thorough"
	maxN, multN := 4, 3
	if thorough {
		maxN, multN = 5, 4
	}
	type fam struct{ n, m int }
	var fams []fam
	for n := 1; n <= maxN; n++ {
		m := 1
		if n <= multN {
			m = 2
		}
		fams = append(fams, fam{n, m})
	}
	for _, codec := range []string{"cbor", "pb"} {
		for _, f := range fams {
			if codec == "pb" && f.n == 5 {
				continue // thorough: dag-pb up to 4 nodes (the depth sweep is three times as long)
			}
			np := c19SelPairs(f.n)
			mult := make([]int, np)
			for {
				ms := ""
				maxM := 0
				for _, v := range mult {
					ms += fmt.Sprint(v)
					if v > maxM {
						maxM = v
					}
				}
				for _, ord := range []string{"asc", "desc"} {
					d := c19SelBuild(codec, f.n, mult, ord == "desc")
					if !d.allReachable() {
						continue
					}
					if ord == "desc" {
						// the same DAG when no node has two distinct children
						same := true
						for _, k := range d.kids {
							for _, j := range k {
								same = same && j == k[0]
							}
						}
						if same {
							continue
						}
					}
					arg := fmt.Sprintf("%s:%d:%s:%s", codec, f.n, ms, ord)
					// the container of the input is crossed fully on the small DAGs (thorough: n <= 3 and the
					// single-link DAGs of 4 nodes), reduced to v1 (+ v2) on the larger ones
					conts := []string{"v1"}
					switch {
					case thorough && (f.n <= 3 || f.n == 4 && maxM <= 1):
						conts = []string{"v1", "v2", "v2pad", "v2noidx", "v2padnoidx"}
					case thorough || f.n <= 3:
						conts = []string{"v1", "v2"}
					}
					for ci, cont := range conts {
						emit(C19Case{Cont: cont, Cmd: "get-dag-selector", Arg: arg})
						if ci > 0 || f.n < 2 {
							continue
						}
						// reduced matrices on the first container
						if f.n <= 3 || thorough && maxM <= 1 && f.n <= 4 {
							emit(C19Case{Cont: cont, Cmd: "get-dag-selector", Arg: arg, Var: "start=implicit,rootfirst"})
							emit(C19Case{Cont: cont, Cmd: "get-dag-selector", Arg: arg, Var: "start=1"})
							for k := 1; k < f.n; k++ {
								emit(C19Case{Cont: cont, Cmd: "get-dag-selector", Arg: arg, Var: fmt.Sprintf("miss=%d", k)})
								if thorough {
									emit(C19Case{Cont: cont, Cmd: "get-dag-selector", Arg: arg, Var: fmt.Sprintf("miss=%d,strict", k)})
								}
							}
						}
					}
				}
				// next multiplicity vector
				i := np - 1
				for ; i >= 0; i-- {
					if mult[i] < f.m {
						mult[i]++
						break
					}
					mult[i] = 0
				}
				if i < 0 {
					break
				}
			}
		}
	}
}
