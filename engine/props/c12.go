package props

import (
	"bytes"
	"fmt"
	"os"
	"path/filepath"
	"strings"

	"github.com/ipfs/go-cid"
	"github.com/ipld/go-car/v2/blockstore"
	"github.com/ipld/go-car/v2/storage"

	"verif/drv"
	"verif/kit"
)

type C12Case struct {
	Front  string   `json:"front"` // bs, st
	Opts   drv.Opts `json:"opts"`
	Prefix []string `json:"prefix"`
	Depth  int      `json:"depth"`
	Ops    []string `json:"ops,omitempty"`   // replay: exactly this sequence (then Finalize)
	Probe  string   `json:"probe,omitempty"` // replay: mismatch probe on the image after Ops
}

var c12Ops = []string{"put:a", "put:b", "D", "F", "put:a'", "put:i"}

// session is one open writable store over a file.
type c12Session struct {
	front string
	path  string
	bs    *blockstore.ReadWrite
	st    *storage.StorageCar
	f     *os.File
}

func c12Open(front, path string, roots []cid.Cid, o drv.Opts, resume bool) (*c12Session, error) {
	s := &c12Session{front: front, path: path}
	if front == "bs" {
		bs, err := blockstore.OpenReadWrite(path, roots, o.List()...)
		if err != nil {
			return nil, err
		}
		s.bs = bs
		return s, nil
	}
	f, err := os.OpenFile(path, os.O_RDWR|os.O_CREATE, 0o644)
	if err != nil {
		return nil, err
	}
	var st *storage.StorageCar
	if resume {
		st, err = storage.OpenReadableWritable(f, roots, o.List()...)
	} else {
		st, err = storage.NewReadableWritable(f, roots, o.List()...)
	}
	if err != nil {
		f.Close()
		return nil, err
	}
	s.st, s.f = st, f
	return s, nil
}

func (s *c12Session) Put(b kit.Blk) error {
	if s.bs != nil {
		return s.bs.Put(drv.Ctx, b.Block())
	}
	return s.st.Put(drv.Ctx, b.Cid.KeyString(), b.Data)
}
func (s *c12Session) Finalize() error {
	if s.bs != nil {
		return s.bs.Finalize()
	}
	err := s.st.Finalize()
	s.f.Close()
	return err
}
func (s *c12Session) Discard() {
	if s.bs != nil {
		s.bs.Discard()
		return
	}
	s.f.Close()
}

func c12Probes(o drv.Opts) map[string]func() ([]cid.Cid, drv.Opts) {
	a, b := kit.B("a").Cid, kit.B("b").Cid
	base := []cid.Cid{a, b}
	p := map[string]func() ([]cid.Cid, drv.Opts){
		"other-root":  func() ([]cid.Cid, drv.Opts) { return []cid.Cid{a, kit.B("c").Cid}, o },
		"extra-root":  func() ([]cid.Cid, drv.Opts) { return append(append([]cid.Cid{}, base...), kit.B("c").Cid), o },
		"fewer-roots": func() ([]cid.Cid, drv.Opts) { return []cid.Cid{a}, o },
		"no-roots":    func() ([]cid.Cid, drv.Opts) { return []cid.Cid{}, o },
		"wrong-version": func() ([]cid.Cid, drv.Opts) {
			o2 := o
			o2.V1 = !o.V1
			return base, o2
		},
	}
	if !o.V1 {
		p["padding-plus"] = func() ([]cid.Cid, drv.Opts) {
			o2 := o
			o2.DataPad = o.DataPad + 1
			return base, o2
		}
		if o.DataPad > 0 {
			p["padding-zero"] = func() ([]cid.Cid, drv.Opts) {
				o2 := o
				o2.DataPad = 0
				return base, o2
			}
		}
	}
	return p
}

var c12ProbeOrder = []string{"other-root", "extra-root", "fewer-roots", "no-roots", "wrong-version", "padding-plus", "padding-zero"}

// c12Run executes ops (+ final Finalize) with interruptions and returns the final bytes.
// probeSeen de-duplicates mismatch probes per distinct file image.
func c12Run(x *kit.Ctx, cs C12Case, ops []string, probeSeen map[string]bool, onlyProbe string) {
	ops = append([]string{}, ops...) // the caller's slice is reused by the enumeration
	roots := []cid.Cid{kit.B("a").Cid, kit.B("b").Cid}
	permuted := []cid.Cid{kit.B("b").Cid, kit.B("a").Cid}
	path := filepath.Join(x.Dir, "c12.car")
	ppath := filepath.Join(x.Dir, "c12-probe.car")
	os.Remove(path)
	defer os.Remove(path)
	defer os.Remove(ppath)
	rc := C12Case{Front: cs.Front, Opts: cs.Opts, Ops: ops}
	x.Eval(1)
	s, err := c12Open(cs.Front, path, roots, cs.Opts, false)
	if err != nil {
		x.FailCase(rc, "c12:open:"+cs.Front, "cannot create store: %v", err)
		return
	}
	var puts []string
	reopenCount := 0
	probe := func(step int) {
		img, _ := os.ReadFile(path)
		k := string(img)
		if probeSeen != nil {
			if probeSeen[k] {
				return
			}
			probeSeen[k] = true
		}
		for _, name := range c12ProbeOrder {
			mk, ok := c12Probes(cs.Opts)[name]
			if !ok || (onlyProbe != "" && onlyProbe != name) {
				continue
			}
			r2, o2 := mk()
			os.WriteFile(ppath, img, 0o644)
			s2, err := c12Open(cs.Front, ppath, r2, o2, true)
			x.Eval(1)
			x.Transition(1)
			after, _ := os.ReadFile(ppath)
			prc := C12Case{Front: cs.Front, Opts: cs.Opts, Ops: ops[:step], Probe: name}
			if err == nil {
				s2.Discard()
				x.FailCase(prc, "c12:mismatch-accepted:"+name+":"+cs.Front, "reopening after %v with mismatch '%s' succeeded", ops[:step], name)
			}
			if !bytes.Equal(after, img) {
				x.FailCase(prc, "c12:mismatch-touched:"+name+":"+cs.Front, "refused reopen (mismatch '%s', err %v) changed the file: %d -> %d bytes", name, err, len(img), len(after))
			}
			x.Nontrivial(fmt.Sprintf("probe|%s|%+v|%s|%x", cs.Front, cs.Opts, name, img))
		}
	}
	for i, op := range ops {
		x.Transition(1)
		switch {
		case strings.HasPrefix(op, "put:"):
			n := strings.TrimPrefix(op, "put:")
			if err := s.Put(kit.B(n)); err != nil {
				x.FailCase(rc, "c12:put-error:"+cs.Front, "Put(%s) after %v failed: %v", n, ops[:i], err)
				s.Discard()
				return
			}
			puts = append(puts, n)
		case op == "D" || op == "F":
			if op == "D" {
				s.Discard()
			} else if err := s.Finalize(); err != nil {
				x.FailCase(rc, "c12:finalize-error:"+cs.Front, "Finalize after %v failed: %v", ops[:i], err)
				return
			}
			probe(i + 1)
			// reopen with the same roots (alternately permuted: a permutation is not a mismatch)
			r := roots
			if reopenCount%2 == 1 {
				r = permuted
			}
			reopenCount++
			s, err = c12Open(cs.Front, path, r, cs.Opts, true)
			if err != nil {
				x.FailCase(rc, "c12:reopen-refused:"+op+":"+cs.Front, "reopening with the same roots and options after %v failed: %v", ops[:i+1], err)
				return
			}
		}
	}
	if err := s.Finalize(); err != nil {
		x.FailCase(rc, "c12:final-finalize-error:"+cs.Front, "final Finalize after %v failed: %v", ops, err)
		return
	}
	got, _ := os.ReadFile(path)
	// the uninterrupted session with the same puts
	upath := filepath.Join(x.Dir, "c12-uninterrupted.car")
	os.Remove(upath)
	defer os.Remove(upath)
	u, err := c12Open(cs.Front, upath, roots, cs.Opts, false)
	if err != nil {
		panic(err)
	}
	for _, n := range puts {
		if err := u.Put(kit.B(n)); err != nil {
			panic(err)
		}
	}
	if err := u.Finalize(); err != nil {
		panic(err)
	}
	want, _ := os.ReadFile(upath)
	if !bytes.Equal(got, want) {
		x.FailCase(rc, "c12:bytes-differ:"+cs.Front, "after %v + Finalize the file (%d bytes) differs from the uninterrupted session's (%d bytes): %x vs %x", ops, len(got), len(want), clip(got), clip(want))
	}
	x.State(fmt.Sprintf("%s|%+v|%x", cs.Front, cs.Opts, got))
	x.Outcome(fmt.Sprintf("reopens=%d", reopenCount))
	if reopenCount > 0 && len(puts) > 0 {
		x.Nontrivial(fmt.Sprintf("%s|%+v|%v", cs.Front, cs.Opts, ops))
	}
}

func runC12(c any, x *kit.Ctx) {
	cs := c.(C12Case)
	if cs.Ops != nil || cs.Probe != "" {
		ops := cs.Ops
		if cs.Probe != "" {
			// the probe runs on the image after ops, which ends with D or F
			c12Run(x, cs, ops, nil, cs.Probe)
		} else {
			c12Run(x, cs, ops, nil, "-")
		}
		return
	}
	seen := map[string]bool{}
	var rec func(cur []string)
	rec = func(cur []string) {
		if len(cur) == cs.Depth {
			c12Run(x, cs, cur, seen, "")
			return
		}
		for _, op := range c12Ops {
			if op == "put:i" && !cs.Opts.StoreID {
				continue
			}
			rec(append(cur, op))
		}
	}
	if len(cs.Prefix) < cs.Depth {
		rec(append([]string{}, cs.Prefix...))
	} else {
		c12Run(x, cs, cs.Prefix, seen, "")
	}
}

func genC12(tier string, emit func(any)) {
	depth := 6
	if tier == "thorough" {
		depth = 7
	}
	cfgs := []drv.Opts{
		{}, {DataPad: 3, IndexPad: 2, Codec: "sorted"}, {V1: true}, {StoreID: true}, {AllowDup: true, DataPad: 1}, {Whole: true}, {V1: true, StoreID: true, AllowDup: true},
	}
	for _, front := range []string{"bs", "st"} {
		for _, o := range cfgs {
			for _, a := range c12Ops {
				for _, b := range c12Ops {
					if (a == "put:i" || b == "put:i") && !o.StoreID {
						continue
					}
					emit(C12Case{Front: front, Opts: o, Prefix: []string{a, b}, Depth: depth})
				}
			}
		}
	}
}

func init() {
	kit.Register(&kit.Prop{
		ID:     "C12",
		Gen:    genC12,
		Run:    runC12,
		Decode: kit.DecodeAs[C12Case],
		Rule: "every sequence of the depth bound over {Put a, Put b, Put a', Put identity, Discard+reopen, Finalize+reopen} followed by Finalize, x 7 option configurations x {blockstore.OpenReadWrite, storage.OpenReadableWritable}; differential oracle: bytes of the uninterrupted session with the same puts; " +
			"on every distinct intermediate file image every single-field mismatch (other/extra/fewer/no roots, wrong version, data padding +1 / to 0) is tried on a copy and must be refused leaving the bytes unchanged; reopen roots alternate between the original order and a permutation; non-trivial = sequence with >=1 reopen and >=1 put, or a mismatch probe on a distinct image",
		Bound: func(tier string) map[string]any {
			if tier == "thorough" {
				return map[string]any{"depth": 7, "ops": 6, "configurations": 7, "front_ends": 2}
			}
			return map[string]any{"depth": 6, "ops": 6, "configurations": 7, "front_ends": 2}
		},
		Assumptions: []string{"the uninterrupted session is the reference (its well-formedness is C05)"},
	})
}
