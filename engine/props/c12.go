package props

import (
	"bytes"
	"fmt"
	"os"
	"path/filepath"
	"strings"

	blocks "github.com/ipfs/go-block-format"
	"github.com/ipfs/go-cid"
	"github.com/ipld/go-car/v2/blockstore"
	"github.com/ipld/go-car/v2/storage"

	"verif/drv"
	"verif/kit"
)

type C12Case struct {
	Front  string   `json:"front"` // bs, st
	Opts   drv.Opts `json:"opts"`
	Prefix []string `json:"prefix"`
	Depth  int      `json:"depth"`
	Ops    []string `json:"ops,omitempty"`    // replay: exactly this sequence (then Finalize)
	Probe  string   `json:"probe,omitempty"`  // replay: mismatch probe on the image after Ops
	Base   string   `json:"base,omitempty"`   // root set the file is created with ("" = ab)
	OpsSet string   `json:"opsset,omitempty"` // "" = c12Ops, "shapes" = c12ShapeOps
	Repeat int      `json:"repeat,omitempty"` // replays of a determinism report: write the uninterrupted session this often
}

var c12Ops = []string{"put:a", "put:b", "D", "F", "put:a'", "put:i"}

// c12ShapeOps: section shapes the rescan has to step over (2- and 3-byte length prefix, empty data, CIDv0, a 64-byte
// digest next to the 32-byte ones: two width buckets in one index) and a batch
var c12ShapeOps = []string{"put:L128", "put:e", "D", "F", "put:a0", "many:a,b", "put:s", "put:L16384"}

func c12OpsOf(cs C12Case) []string {
	if cs.OpsSet == "shapes" {
		return c12ShapeOps
	}
	return c12Ops
}

func (cs C12Case) base() []string {
	if cs.Base == "" {
		return kit.RootSets["ab"]
	}
	return kit.RootSets[cs.Base]
}

func c12Cids(names []string) []cid.Cid {
	out := []cid.Cid{}
	for _, n := range names {
		out = append(out, kit.B(n).Cid)
	}
	return out
}

// session is one open writable store over a file.
type c12Session struct {
	front string
	path  string
	bs    *blockstore.ReadWrite
	st    *storage.StorageCar
	f     *os.File
	owned bool // the session closes f
}

// c12Open opens a session. Front "bsf" is blockstore.OpenReadWriteFile over a caller-owned handle: when h is
// non-nil the SAME handle is used again (a caller that keeps its *os.File across sessions).
func c12Open(front, path string, roots []cid.Cid, o drv.Opts, resume bool, h *os.File) (*c12Session, error) {
	s := &c12Session{front: front, path: path}
	if front == "bsf" {
		f := h
		if f == nil {
			var err error
			f, err = os.OpenFile(path, os.O_RDWR|os.O_CREATE, 0o644)
			if err != nil {
				return nil, err
			}
			s.owned = true
		}
		bs, err := blockstore.OpenReadWriteFile(f, roots, o.List()...)
		if err != nil {
			if s.owned {
				f.Close()
			}
			return nil, err
		}
		s.bs, s.f = bs, f
		return s, nil
	}
	if front == "bs" {
		bs, err := blockstore.OpenReadWrite(path, roots, o.List()...)
		if err != nil {
			return nil, err
		}
		s.bs = bs
		return s, nil
	}
	f, err := os.OpenFile(path, os.O_RDWR|os.O_CREATE, 0o644)
	if err != nil {
		return nil, err
	}
	var st *storage.StorageCar
	if resume {
		st, err = storage.OpenReadableWritable(f, roots, o.List()...)
	} else {
		st, err = storage.NewReadableWritable(f, roots, o.List()...)
	}
	if err != nil {
		f.Close()
		return nil, err
	}
	s.st, s.f, s.owned = st, f, true
	return s, nil
}

func (s *c12Session) Get(b kit.Blk) ([]byte, error) {
	if s.bs != nil {
		blk, err := s.bs.Get(drv.Ctx, b.Cid)
		if err != nil {
			return nil, err
		}
		return blk.RawData(), nil
	}
	return s.st.Get(drv.Ctx, b.Cid.KeyString())
}

func (s *c12Session) PutMany(bs []kit.Blk) error {
	if s.bs != nil {
		var l []blocks.Block
		for _, b := range bs {
			l = append(l, b.Block())
		}
		return s.bs.PutMany(drv.Ctx, l)
	}
	for _, b := range bs {
		if err := s.st.Put(drv.Ctx, b.Cid.KeyString(), b.Data); err != nil {
			return err
		}
	}
	return nil
}

func (s *c12Session) Put(b kit.Blk) error {
	if s.bs != nil {
		return s.bs.Put(drv.Ctx, b.Block())
	}
	return s.st.Put(drv.Ctx, b.Cid.KeyString(), b.Data)
}
func (s *c12Session) Finalize() error {
	if s.bs != nil {
		err := s.bs.Finalize()
		if s.owned {
			s.f.Close()
		}
		return err
	}
	err := s.st.Finalize()
	s.f.Close()
	return err
}
func (s *c12Session) Discard() {
	if s.bs != nil {
		s.bs.Discard()
		if s.owned {
			s.f.Close()
		}
		return
	}
	s.f.Close()
}

func c12Probes(o drv.Opts, baseNames []string) map[string]func() ([]cid.Cid, drv.Opts) {
	base := c12Cids(baseNames)
	in := func(n string) bool {
		for _, b := range baseNames {
			if b == n {
				return true
			}
		}
		return false
	}
	fresh := "c"
	for _, n := range []string{"c", "e", "k", "t"} {
		if !in(n) {
			fresh = n
			break
		}
	}
	with := func(i int, n string) []cid.Cid {
		r := append([]cid.Cid{}, base...)
		r[i] = kit.B(n).Cid
		return r
	}
	p := map[string]func() ([]cid.Cid, drv.Opts){
		"extra-root": func() ([]cid.Cid, drv.Opts) { return append(append([]cid.Cid{}, base...), kit.B(fresh).Cid), o },
		"wrong-version": func() ([]cid.Cid, drv.Opts) {
			o2 := o
			o2.V1 = !o.V1
			return base, o2
		},
	}
	last := len(base) - 1
	if len(base) >= 1 {
		p["other-root"] = func() ([]cid.Cid, drv.Opts) { return with(last, fresh), o }
		p["fewer-roots"] = func() ([]cid.Cid, drv.Opts) { return append([]cid.Cid{}, base[:last]...), o }
	}
	if len(base) >= 2 {
		p["no-roots"] = func() ([]cid.Cid, drv.Opts) { return []cid.Cid{}, o }
		if !base[0].Equals(base[last]) {
			// a list of the same length all of whose members occur in the file's list, with one repeated
			p["dup-root"] = func() ([]cid.Cid, drv.Opts) { return with(last, baseNames[0]), o }
		} else {
			// the file repeats a root; the given list has the same length and contains every root of the file
			p["undup-root"] = func() ([]cid.Cid, drv.Opts) { return with(last, fresh), o }
		}
	}
	// a list with the same members as the file's, in other multiplicities ([a,a,b] -> [a,b,b])
	for i := range base {
		for j := i + 1; j < len(base); j++ {
			for k := range base {
				if base[i].Equals(base[j]) && !base[k].Equals(base[i]) {
					j, k := j, k
					p["shift-multiplicity"] = func() ([]cid.Cid, drv.Opts) { return with(j, baseNames[k]), o }
				}
			}
		}
	}
	for i, n := range baseNames {
		if n == "a" {
			i := i
			// same digest: other codec, other CID version
			p["codec-root"] = func() ([]cid.Cid, drv.Opts) { return with(i, "a'"), o }
			p["cidv0-root"] = func() ([]cid.Cid, drv.Opts) { return with(i, "a0"), o }
			break
		}
	}
	if !o.V1 {
		pad := func(d uint64) func() ([]cid.Cid, drv.Opts) {
			return func() ([]cid.Cid, drv.Opts) {
				o2 := o
				o2.DataPad = d
				return base, o2
			}
		}
		p["padding-plus"] = pad(o.DataPad + 1)
		p["padding-plus8"] = pad(o.DataPad + 8)
		p["padding-plus64"] = pad(o.DataPad + 64)
		if o.DataPad > 0 {
			p["padding-zero"] = pad(0)
		}
		if o.DataPad > 1 {
			p["padding-minus"] = pad(o.DataPad - 1)
		}
	}
	return p
}

var c12ProbeOrder = []string{"other-root", "extra-root", "fewer-roots", "no-roots", "dup-root", "undup-root", "shift-multiplicity", "codec-root", "cidv0-root", "wrong-version", "padding-plus", "padding-plus8", "padding-plus64", "padding-minus", "padding-zero"}

// c12Perm returns the k-th rearrangement of the roots used on reopen (a permutation is not a mismatch).
func c12Perm(r []cid.Cid, k int) []cid.Cid {
	out := append([]cid.Cid{}, r...)
	if len(out) < 2 {
		if len(out) == 0 && k%2 == 1 {
			return nil // no roots, spelled as a nil slice
		}
		return out
	}
	switch k % 3 {
	case 1: // reversed
		for i, j := 0, len(out)-1; i < j; i, j = i+1, j-1 {
			out[i], out[j] = out[j], out[i]
		}
	case 2: // rotated
		out = append(out[1:], out[0])
	}
	return out
}

// c12SameOrder tells whether two root lists hold the same CIDs in the same order (nil and empty are the same list).
func c12SameOrder(a, b []cid.Cid) bool {
	if len(a) != len(b) {
		return false
	}
	for i := range a {
		if !a[i].Equals(b[i]) {
			return false
		}
	}
	return true
}

// c12OrderKey names an order of the roots in the memo of uninterrupted sessions.
func c12OrderKey(r []cid.Cid) string {
	var sb strings.Builder
	for _, c := range r {
		sb.WriteString(c.KeyString())
		sb.WriteByte('|')
	}
	return sb.String()
}

// c12Memo is shared by all sequences of one case (same front end, options and roots).
type c12Memo struct {
	probeSeen map[string]bool
	want      map[string][]byte // puts so far + order of the roots -> bytes of the uninterrupted session
	wantFail  map[string]string // the same key -> operation the uninterrupted session itself failed at ("" = none)
}

// c12PutNames expands the put operations done so far ("a", "many:a,b") into block names.
func c12PutNames(puts []string) []string {
	var out []string
	for _, p := range puts {
		if strings.HasPrefix(p, "many:") {
			out = append(out, strings.Split(strings.TrimPrefix(p, "many:"), ",")...)
		} else {
			out = append(out, p)
		}
	}
	return out
}

// c12Run executes ops (+ final Finalize) with interruptions and compares with uninterrupted sessions.
// memo de-duplicates mismatch probes per distinct file image and caches the uninterrupted sessions.
func c12Run(x *kit.Ctx, cs C12Case, ops []string, memo *c12Memo, onlyProbe string) {
	ops = append([]string{}, ops...) // the caller's slice is reused by the enumeration
	if memo == nil {
		memo = &c12Memo{want: map[string][]byte{}}
	}
	if memo.wantFail == nil {
		memo.wantFail = map[string]string{}
	}
	baseNames := cs.base()
	roots := c12Cids(baseNames)
	path := filepath.Join(x.Dir, "c12.car")
	ppath := filepath.Join(x.Dir, "c12-probe.car")
	os.Remove(path)
	defer os.Remove(path)
	defer os.Remove(ppath)
	rc := C12Case{Front: cs.Front, Opts: cs.Opts, Ops: ops, Base: cs.Base, OpsSet: cs.OpsSet}
	x.Eval(1)
	// the caller-owned handle of front "bsf" lives as long as the whole history
	var h *os.File
	if cs.Front == "bsf" {
		var err error
		h, err = os.OpenFile(path, os.O_RDWR|os.O_CREATE, 0o644)
		if err != nil {
			panic(err)
		}
		defer h.Close()
	}
	s, err := c12Open(cs.Front, path, roots, cs.Opts, false, h)
	if err != nil {
		x.FailCase(rc, "c12:open:"+cs.Front, "cannot create store: %v", err)
		return
	}
	var puts []string
	// uninterrupted(puts, order): the bytes a session that is never interrupted writes for the same puts, created with
	// the roots in the given order
	uninterrupted := func(puts []string, order []cid.Cid) []byte {
		k := strings.Join(puts, ",") + "#" + c12OrderKey(order)
		if w, ok := memo.want[k]; ok {
			return w
		}
		upath := filepath.Join(x.Dir, "c12-uninterrupted.car")
		failedAt := ""
		once := func() []byte {
			os.Remove(upath)
			defer os.Remove(upath)
			u, err := c12Open(cs.Front, upath, order, cs.Opts, false, nil)
			if err != nil {
				panic(err)
			}
			// the uninterrupted session does the same operations: a batch is a PutMany here too
			for i, n := range puts {
				if strings.HasPrefix(n, "many:") {
					err = u.PutMany(kit.Bs(strings.Split(strings.TrimPrefix(n, "many:"), ",")))
				} else {
					err = u.Put(kit.B(n))
				}
				if err != nil {
					failedAt = fmt.Sprintf("put#%d", i)
					u.Discard()
					return nil
				}
			}
			if err := u.Finalize(); err != nil {
				failedAt = "finalize"
				return nil
			}
			w, _ := os.ReadFile(upath)
			return w
		}
		w := once()
		memo.wantFail[k] = failedAt
		// "byte-identical to the uninterrupted session" presupposes that this session's bytes are a function of the
		// roots, options and puts: the reference is written twice and compared (a replay of such a report repeats it
		// cs.Repeat times, so that a difference that shows only now and then is confirmed)
		reps := 2
		if cs.Repeat > reps {
			reps = cs.Repeat
		}
		for i := 1; i < reps; i++ {
			if w2 := once(); !bytes.Equal(w, w2) {
				var pops []string
				for _, n := range puts {
					if strings.HasPrefix(n, "many:") {
						pops = append(pops, n)
					} else {
						pops = append(pops, "put:"+n)
					}
				}
				x.FailCase(C12Case{Front: cs.Front, Opts: cs.Opts, Ops: pops, Base: cs.Base, OpsSet: cs.OpsSet, Repeat: 400}, "c12:uninterrupted-not-deterministic:"+cs.Front,
					"two uninterrupted sessions with the same roots, options and puts %v wrote different files (first difference at byte %d of %d/%d)", puts, c12FirstDiff(w, w2), len(w), len(w2))
				break
			}
		}
		memo.want[k] = w
		return w
	}
	reopenCount := 0
	// accepted: the rearrangements of the roots that a reopen of this history accepted. The statement fixes the file
	// of "the same roots"; where an implementation takes a rearranged list for the same roots, the uninterrupted
	// session created with that list is as legal a reference as the one created with the original order.
	var accepted [][]cid.Cid
	matchesUninterrupted := func(got []byte, puts []string) bool {
		if bytes.Equal(got, uninterrupted(puts, roots)) {
			return true
		}
		for _, o := range accepted {
			if bytes.Equal(got, uninterrupted(puts, o)) {
				return true
			}
		}
		return false
	}
	// refFailsAt: the operation at which the uninterrupted session of these puts fails itself ("" = it succeeds).
	// The statement compares with the file the uninterrupted session writes; where that session writes none, an
	// interrupted session that fails at the same operation is beyond the statement.
	refFailsAt := func(puts []string) string {
		uninterrupted(puts, roots)
		return memo.wantFail[strings.Join(puts, ",")+"#"+c12OrderKey(roots)]
	}
	probe := func(step int) {
		img, _ := os.ReadFile(path)
		k := string(img)
		if memo.probeSeen != nil {
			if memo.probeSeen[k] {
				return
			}
			memo.probeSeen[k] = true
		}
		probes := c12Probes(cs.Opts, baseNames)
		for _, name := range c12ProbeOrder {
			mk, ok := probes[name]
			if !ok || (onlyProbe != "" && onlyProbe != name) {
				continue
			}
			r2, o2 := mk()
			os.WriteFile(ppath, img, 0o644)
			s2, err := c12Open(cs.Front, ppath, r2, o2, true, nil)
			x.Eval(1)
			x.Transition(1)
			after, _ := os.ReadFile(ppath)
			prc := C12Case{Front: cs.Front, Opts: cs.Opts, Ops: ops[:step], Probe: name, Base: cs.Base, OpsSet: cs.OpsSet}
			if err == nil {
				s2.Discard()
				x.FailCase(prc, "c12:mismatch-accepted:"+name+":"+cs.Front, "reopening a file with roots %v after %v with mismatch '%s' succeeded", baseNames, ops[:step], name)
			}
			if !bytes.Equal(after, img) {
				x.FailCase(prc, "c12:mismatch-touched:"+name+":"+cs.Front, "refused reopen (mismatch '%s', err %v) changed the file: %d -> %d bytes", name, err, len(img), len(after))
			}
			x.Nontrivial(fmt.Sprintf("probe|%s|%+v|%s|%s|%x", cs.Front, cs.Opts, cs.Base, name, img))
		}
	}
	for i, op := range ops {
		x.Transition(1)
		switch {
		case strings.HasPrefix(op, "put:"):
			n := strings.TrimPrefix(op, "put:")
			if err := s.Put(kit.B(n)); err != nil {
				if refFailsAt(append(append([]string{}, puts...), n)) == fmt.Sprintf("put#%d", len(puts)) {
					x.Outcome("beyond-statement:put-refused-by-uninterrupted-session-too")
					s.Discard()
					return
				}
				x.FailCase(rc, "c12:put-error:"+cs.Front, "Put(%s) after %v failed: %v", n, ops[:i], err)
				s.Discard()
				return
			}
			puts = append(puts, n)
		case strings.HasPrefix(op, "many:"):
			ns := strings.Split(strings.TrimPrefix(op, "many:"), ",")
			if err := s.PutMany(kit.Bs(ns)); err != nil {
				if refFailsAt(append(append([]string{}, puts...), op)) == fmt.Sprintf("put#%d", len(puts)) {
					x.Outcome("beyond-statement:put-refused-by-uninterrupted-session-too")
					s.Discard()
					return
				}
				x.FailCase(rc, "c12:put-error:"+cs.Front, "PutMany(%v) after %v failed: %v", ns, ops[:i], err)
				s.Discard()
				return
			}
			puts = append(puts, op)
		case op == "D" || op == "F":
			if op == "D" {
				s.Discard()
			} else {
				if err := s.Finalize(); err != nil {
					if refFailsAt(puts) == "finalize" {
						x.Outcome("beyond-statement:finalize-refused-by-uninterrupted-session-too")
						return
					}
					x.FailCase(rc, "c12:finalize-error:"+cs.Front, "Finalize after %v failed: %v", ops[:i], err)
					return
				}
				// every finalized intermediate image is already the uninterrupted session's file for the puts so far
				img, _ := os.ReadFile(path)
				if !matchesUninterrupted(img, puts) {
					want := uninterrupted(puts, roots)
					x.FailCase(rc, "c12:intermediate-bytes-differ:"+cs.Front, "after %v the finalized file (%d bytes) differs from the uninterrupted session's (%d bytes): %x vs %x", ops[:i+1], len(img), len(want), clip(img), clip(want))
					return
				}
			}
			probe(i + 1)
			// reopen with the same roots, rearranged. The statement promises the reopen for "the same roots"; that a
			// rearranged list is the same roots is CarHeader.Matches' documentation, not the statement. A refusal of a
			// genuinely rearranged list is therefore recorded, not reported, and the history goes on in the original
			// order (whose refusal is a violation). Refused, the rearranged list was a mismatch for the implementation,
			// and a refused mismatch leaves the file as it was: that half of the statement holds either way.
			r := c12Perm(roots, reopenCount)
			reopenCount++
			permuted := !c12SameOrder(r, roots)
			var before []byte
			if permuted {
				before, _ = os.ReadFile(path)
			}
			s, err = c12Open(cs.Front, path, r, cs.Opts, true, h)
			if permuted && err != nil {
				x.Outcome("beyond-statement:permuted-roots-refused")
				if after, _ := os.ReadFile(path); !bytes.Equal(after, before) {
					x.FailCase(rc, "c12:mismatch-touched:permuted-roots:"+cs.Front, "refused reopen with the roots rearranged after %v (err %v) changed the file: %d -> %d bytes", ops[:i+1], err, len(before), len(after))
					return
				}
				s, err = c12Open(cs.Front, path, roots, cs.Opts, true, h)
			} else if permuted {
				known := false
				for _, o := range accepted {
					known = known || c12SameOrder(o, r)
				}
				if !known {
					accepted = append(accepted, r)
				}
			}
			if err != nil {
				x.FailCase(rc, "c12:reopen-refused:"+op+":"+cs.Front, "reopening with the same roots and options after %v failed: %v", ops[:i+1], err)
				return
			}
		}
	}
	// the resumed session serves every block put so far, with its bytes
	for _, n := range c12PutNames(puts) {
		b := kit.B(n)
		if b.Cid.Prefix().MhType == 0 && !cs.Opts.StoreID {
			continue
		}
		d, err := s.Get(b)
		if err != nil || !bytes.Equal(d, b.Data) {
			x.FailCase(rc, "c12:resumed-get:"+cs.Front, "after %v the session does not return block %s (err %v, %d bytes)", ops, n, err, len(d))
			break
		}
	}
	if err := s.Finalize(); err != nil {
		if refFailsAt(puts) == "finalize" {
			x.Outcome("beyond-statement:finalize-refused-by-uninterrupted-session-too")
			return
		}
		x.FailCase(rc, "c12:final-finalize-error:"+cs.Front, "final Finalize after %v failed: %v", ops, err)
		return
	}
	got, _ := os.ReadFile(path)
	if !matchesUninterrupted(got, puts) {
		want := uninterrupted(puts, roots)
		x.FailCase(rc, "c12:bytes-differ:"+cs.Front, "after %v + Finalize the file (%d bytes) differs from the uninterrupted session's (%d bytes): %x vs %x", ops, len(got), len(want), clip(got), clip(want))
	}
	x.State(fmt.Sprintf("%s|%+v|%s|%x", cs.Front, cs.Opts, cs.Base, got))
	x.Outcome(fmt.Sprintf("reopens=%d", reopenCount))
	if reopenCount > 0 && len(puts) > 0 {
		x.Nontrivial(fmt.Sprintf("%s|%+v|%s|%v", cs.Front, cs.Opts, cs.Base, ops))
	}
}

func runC12(c any, x *kit.Ctx) {
	cs := c.(C12Case)
	if cs.Ops != nil || cs.Probe != "" {
		ops := cs.Ops
		if cs.Probe != "" {
			// the probe runs on the image after ops, which ends with D or F
			c12Run(x, cs, ops, nil, cs.Probe)
		} else {
			c12Run(x, cs, ops, nil, "-")
		}
		return
	}
	memo := &c12Memo{probeSeen: map[string]bool{}, want: map[string][]byte{}}
	opsSet := c12OpsOf(cs)
	var rec func(cur []string)
	rec = func(cur []string) {
		if len(cur) == cs.Depth {
			c12Run(x, cs, cur, memo, "")
			return
		}
		for _, op := range opsSet {
			if op == "put:i" && !cs.Opts.StoreID {
				continue
			}
			if op == "put:L16384" && cs.Depth < 6 {
				continue // thorough tier only
			}
			rec(append(cur, op))
		}
	}
	if len(cs.Prefix) < cs.Depth {
		rec(append([]string{}, cs.Prefix...))
	} else {
		c12Run(x, cs, cs.Prefix, memo, "")
	}
}

var c12Cfgs = []drv.Opts{
	{}, {DataPad: 3, IndexPad: 2, Codec: "sorted"}, {V1: true}, {StoreID: true}, {AllowDup: true, DataPad: 1}, {Whole: true}, {V1: true, StoreID: true, AllowDup: true},
}

// further option configurations, explored one level less deep
var c12MoreCfgs = []drv.Opts{
	{ZeroEOF: true}, {V1: true, DataPad: 3}, {Whole: true, AllowDup: true}, {Whole: true, StoreID: true}, {IndexPad: 5}, {Codec: "mh", DataPad: 1413}, {ZeroEOF: true, IndexPad: 4, StoreID: true},
}

var c12Fronts = []string{"bs", "st", "bsf"}
var c12Bases = []string{"aa", "a", "empty", "r4", "aab"}

func genC12(tier string, emit func(any)) {
	depth := 6
	if tier == "thorough" {
		depth = 7
	}
	family := func(front string, o drv.Opts, depth int, base, opsSet string) {
		ops := c12Ops
		if opsSet == "shapes" {
			ops = c12ShapeOps
		}
		for _, a := range ops {
			for _, b := range ops {
				if (a == "put:i" || b == "put:i") && !o.StoreID {
					continue
				}
				if (a == "put:L16384" || b == "put:L16384") && depth < 6 {
					continue
				}
				emit(C12Case{Front: front, Opts: o, Prefix: []string{a, b}, Depth: depth, Base: base, OpsSet: opsSet})
			}
		}
	}
	for _, front := range c12Fronts {
		for _, o := range c12Cfgs {
			family(front, o, depth, "", "")
		}
		for _, o := range c12MoreCfgs {
			family(front, o, depth-1, "", "")
		}
		// other root sets in the file (duplicate, single, none, four: 2-byte header length prefix)
		for _, base := range c12Bases {
			for _, o := range []drv.Opts{{}, {V1: true}, {DataPad: 3, IndexPad: 2, Codec: "sorted"}} {
				family(front, o, depth-2, base, "")
			}
		}
		// section shapes and batches
		for _, o := range []drv.Opts{{}, {V1: true}, {Whole: true}, {DataPad: 3, IndexPad: 2, Codec: "sorted"}} {
			family(front, o, depth-1, "", "shapes")
		}
	}
}

func init() {
	kit.Register(&kit.Prop{
		ID:     "C12",
		Gen:    genC12,
		Run:    runC12,
		Decode: kit.DecodeAs[C12Case],
		Rule: "every sequence of the depth bound over {Put a, Put b, Put a', Put identity, Discard+reopen, Finalize+reopen} followed by Finalize, x 7 option configurations (7 more one level less deep) x {blockstore.OpenReadWrite, storage.OpenReadableWritable, blockstore.OpenReadWriteFile over ONE caller-owned handle kept across all sessions}; " +
			"the same over section shapes {128-byte and 16 KiB sections, empty data, CIDv0, sha2-512 block (a second digest width in the index), PutMany batch} and over files created with root sets {a,a}, {a}, {}, {a,b,c,s}, {a,a,b}; differential oracle: bytes of the uninterrupted session with the same puts, after the final Finalize AND after every intermediate Finalize; every block put is read back from the resumed session; " +
			"on every distinct intermediate file image every single-field mismatch (other/extra/fewer/no roots, a repeated root for a distinct one and vice versa, the same members in other multiplicities, same digest under another codec / as CIDv0, wrong version, data padding +1/+8/+64/-1/to 0) is tried on a copy and must be refused leaving the bytes unchanged; reopen roots cycle through original order, reversed, rotated (nil for no roots); a refusal of a genuinely rearranged list is beyond the statement (outcome beyond-statement:permuted-roots-refused; it must leave the bytes unchanged, and the history continues with the original order, whose refusal is a violation); where a rearranged list was accepted, the uninterrupted session created with that order is a reference too; non-trivial = sequence with >=1 reopen and >=1 put, or a mismatch probe on a distinct image",
		Bound: func(tier string) map[string]any {
			d := 6
			if tier == "thorough" {
				d = 7
			}
			return map[string]any{"depth": d, "depth_more_cfgs_and_shapes": d - 1, "depth_other_root_sets": d - 2, "ops": 6, "shape_ops": len(c12ShapeOps), "configurations": len(c12Cfgs) + len(c12MoreCfgs), "front_ends": len(c12Fronts), "root_sets": 1 + len(c12Bases)}
		},
		Assumptions: []string{"the uninterrupted reference issues the same calls as the history (a PutMany batch as one PutMany); an operation that the uninterrupted session refuses at the same point is outside the statement (outcome beyond-statement:*-refused-by-uninterrupted-session-too)", "the uninterrupted session is the reference (its well-formedness is C05)", "read limits below the session's own header/section sizes are not configured", "the statement's 'same roots' is the same list; that a rearranged list is accepted as the same roots is documented by CarHeader.Matches only and is observed, not required"},
	})
}

func c12FirstDiff(a, b []byte) int {
	n := len(a)
	if len(b) < n {
		n = len(b)
	}
	for i := 0; i < n; i++ {
		if a[i] != b[i] {
			return i
		}
	}
	return n
}
