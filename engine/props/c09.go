package props

import (
	"bufio"
	"bytes"
	"context"
	"encoding/binary"
	"encoding/json"
	"errors"
	"fmt"
	"io"
	"os"
	"os/exec"
	"path/filepath"
	"runtime/debug"
	"runtime/metrics"
	"strings"
	"syscall"
	"time"

	blocks "github.com/ipfs/go-block-format"
	"github.com/ipfs/go-cid"
	carv1 "github.com/ipld/go-car"
	v1util "github.com/ipld/go-car/util"
	carv2 "github.com/ipld/go-car/v2"
	"github.com/ipld/go-car/v2/blockstore"
	"github.com/ipld/go-car/v2/index"
	"github.com/ipld/go-car/v2/storage"
	"github.com/ipld/go-car/v2/verifbridge"

	"verif/drv"
	"verif/kit"
	"verif/refcar"
)

// ---------------------------------------------------------------- seeds and mutations

type C09Mut struct {
	Kind string `json:"kind"` // none, set, trunc, set2, field
	Pos  int    `json:"pos,omitempty"`
	Val  int    `json:"val,omitempty"`
	Pos2 int    `json:"pos2,omitempty"`
	Val2 int    `json:"val2,omitempty"`
	// field: overwrite [Pos, Pos+len(Bytes)) with Bytes (hex), or replace a varint
	Hex    string `json:"hex,omitempty"`
	OldLen int    `json:"oldlen,omitempty"` // bytes replaced (varint replacement may change length)
}

type C09Case struct {
	Seed  string  `json:"seed"`
	Class string  `json:"class"` // byte, pair, fields, limits
	Limit string  `json:"limit"` // default, small
	Zero  bool    `json:"zero,omitempty"`
	From  int     `json:"from,omitempty"`  // skip the first From mutants (restart after a child death)
	Mut   *C09Mut `json:"mut,omitempty"`   // replay: only this mutant
	Entry string  `json:"entry,omitempty"` // replay: only this entry point
}

type c09Seed struct {
	name    string
	bytes   []byte
	isIdx   bool
	region  func(pos int) string
	struct_ []int // structural byte positions for 2-deviation pairs
	fields  []c09Field
}

type c09Field struct {
	name   string
	pos    int
	width  int // fixed-width little-endian field (4 or 8), or 0 for a varint
	varlen int // current varint length
	values []uint64
}

func c09Seeds() []c09Seed {
	_, rootRaws, _ := kit.Roots("a")
	var out []c09Seed
	mk := func(name string, seq []string, cont string) {
		var rb []refcar.Block
		for _, b := range kit.Bs(seq) {
			rb = append(rb, b.Ref())
		}
		payload := refcar.EncodeV1(rootRaws, false, rb)
		pl, _ := refcar.DecodePayload(payload, false, true)
		s := c09Seed{name: name}
		base := 0
		switch cont {
		case "v1":
			s.bytes = payload
		case "v2":
			s.bytes = refcar.EncodeV2(payload, 0, 0, refcar.EncodeIndex(refcar.CodecMhIndexSorted, refcar.RecordsOf(pl, false)), false)
			base = 51
		case "v2pad":
			s.bytes = refcar.EncodeV2(payload, 2, 1, refcar.EncodeIndex(refcar.CodecIndexSorted, refcar.RecordsOf(pl, false)), false)
			base = 53
		case "v2noidx":
			s.bytes = refcar.EncodeV2(payload, 0, 0, nil, false)
			base = 51
		}
		size := uint64(len(payload))
		// structural regions: pragma, v2 header, v1 header prefix, first section prefix, index prefix
		add := func(from, to int) {
			for p := from; p < to && p < len(s.bytes); p++ {
				s.struct_ = append(s.struct_, p)
			}
		}
		if base > 0 {
			add(0, 11)
			add(27, 51) // offsets/sizes of the v2 header
			bv := []uint64{0, 1, 50, 51, 52, size - 1, size, size + 1, uint64(len(s.bytes)), 1 << 31, 1 << 32, 1<<63 - 1, 1 << 63, 1<<64 - 1}
			s.fields = append(s.fields, c09Field{name: "v2.DataOffset", pos: 27, width: 8, values: bv}, c09Field{name: "v2.DataSize", pos: 35, width: 8, values: bv}, c09Field{name: "v2.IndexOffset", pos: 43, width: 8, values: bv})
		}
		add(base, base+4)
		lens := []uint64{0, 1, 2, 127, 128, 1023, 1024, 1025, 4095, 4096, 4097, 8 << 20, 8<<20 + 1, 32 << 20, 32<<20 + 1, 1 << 31, 1 << 32, 1<<63 - 1, 1 << 63, 1<<64 - 1}
		s.fields = append(s.fields, c09Field{name: "v1.HeaderLen", pos: base, varlen: refcar.UvarintSize(pl.HeaderLen - 1), values: lens})
		if len(pl.Sections) > 0 {
			so := base + int(pl.Sections[0].Offset)
			add(so, so+6)
			s.fields = append(s.fields, c09Field{name: "section0.Len", pos: so, varlen: refcar.UvarintSize(pl.Sections[0].Len - 1), values: lens})
		}
		if cont == "v2" || cont == "v2pad" {
			h := refcar.ParseV2Header(s.bytes[11:51])
			io_ := int(h.IndexOffset)
			add(io_, io_+30)
			cl := refcar.UvarintSize(refcar.CodecMhIndexSorted)
			big := []uint64{0, 1, 2, 7, 8, 9, 40, 1 << 20, 32 << 20, 32<<20 + 1, 1 << 31, 1<<32 - 1}
			big64 := []uint64{0, 1, 39, 40, 41, 80, 1 << 20, 1 << 31, 1 << 32, 1 << 40, 1<<63 - 1, 1 << 63, 1<<64 - 1}
			if cont == "v2" {
				// codec | i32 #codes | u64 code | i32 #widths | u32 width | u64 len
				s.fields = append(s.fields,
					c09Field{name: "idx.codes", pos: io_ + cl, width: 4, values: big},
					c09Field{name: "idx.code", pos: io_ + cl + 4, width: 8, values: big64},
					c09Field{name: "idx.widths", pos: io_ + cl + 12, width: 4, values: big},
					c09Field{name: "idx.width", pos: io_ + cl + 16, width: 4, values: big},
					c09Field{name: "idx.len", pos: io_ + cl + 20, width: 8, values: big64})
			} else {
				s.fields = append(s.fields,
					c09Field{name: "idx.widths", pos: io_ + cl, width: 4, values: big},
					c09Field{name: "idx.width", pos: io_ + cl + 4, width: 4, values: big},
					c09Field{name: "idx.len", pos: io_ + cl + 8, width: 8, values: big64})
			}
		}
		total := len(s.bytes)
		plc := pl
		basec := base
		payloadLen := len(payload)
		s.region = func(pos int) string {
			switch {
			case basec > 0 && pos < 11:
				return "pragma"
			case basec > 0 && pos < 51:
				return "v2-header"
			case pos < basec:
				return "data-padding"
			case pos < basec+int(plc.HeaderLen):
				return "v1-header"
			case pos >= basec+payloadLen && pos < total:
				return "index"
			}
			for _, sec := range plc.Sections {
				so := basec + int(sec.Offset)
				vn := int(sec.Len) - len(sec.Cid) - len(sec.Data)
				switch {
				case pos >= so && pos < so+vn:
					return "section-length"
				case pos >= so+vn && pos < so+vn+len(sec.Cid):
					return "section-cid"
				case pos >= so+vn+len(sec.Cid) && pos < so+int(sec.Len):
					return "section-data"
				}
			}
			return "end"
		}
		// keep only the fields that exist in this seed (an index without buckets is shorter)
		var fs []c09Field
		for _, f := range s.fields {
			w := f.width
			if w == 0 {
				w = f.varlen
			}
			if f.pos+w <= len(s.bytes) {
				fs = append(fs, f)
			}
		}
		s.fields = fs
		out = append(out, s)
	}
	mk("v1-empty", nil, "v1")
	mk("v1-a", []string{"a"}, "v1")
	mk("v1-ai", []string{"a", "i"}, "v1")
	mk("v2-a", []string{"a"}, "v2")
	mk("v2-as", []string{"a", "s"}, "v2")
	mk("v2pad-ab", []string{"a", "b"}, "v2pad")
	mk("v2noidx-a", []string{"a"}, "v2noidx")
	mk("v2-empty", nil, "v2")
	// detached indexes
	recs := []refcar.IndexRecord{{MhCode: refcar.MhSha256, Digest: bytes.Repeat([]byte{7}, 32), Offset: 59}, {MhCode: refcar.MhSha512, Digest: bytes.Repeat([]byte{9}, 64), Offset: 100}}
	for _, codec := range []uint64{refcar.CodecIndexSorted, refcar.CodecMhIndexSorted} {
		b := refcar.EncodeIndex(codec, recs)
		s := c09Seed{name: fmt.Sprintf("index-%x", codec), bytes: b, isIdx: true, region: func(int) string { return "index" }}
		for p := 0; p < 40 && p < len(b); p++ {
			s.struct_ = append(s.struct_, p)
		}
		cl := 2
		big := []uint64{0, 1, 2, 7, 8, 9, 40, 1 << 20, 32 << 20, 32<<20 + 1, 1 << 31, 1<<32 - 1}
		big64 := []uint64{0, 1, 39, 40, 41, 80, 1 << 20, 1 << 31, 1 << 32, 1 << 40, 1<<63 - 1, 1 << 63, 1<<64 - 1}
		if codec == refcar.CodecMhIndexSorted {
			s.fields = []c09Field{{name: "idx.codes", pos: cl, width: 4, values: big}, {name: "idx.code", pos: cl + 4, width: 8, values: big64}, {name: "idx.widths", pos: cl + 12, width: 4, values: big}, {name: "idx.width", pos: cl + 16, width: 4, values: big}, {name: "idx.len", pos: cl + 20, width: 8, values: big64}}
		} else {
			s.fields = []c09Field{{name: "idx.widths", pos: cl, width: 4, values: big}, {name: "idx.width", pos: cl + 4, width: 4, values: big}, {name: "idx.len", pos: cl + 8, width: 8, values: big64}}
		}
		out = append(out, s)
	}
	return out
}

func c09FindSeed(name string) *c09Seed {
	for _, s := range c09Seeds() {
		if s.name == name {
			s := s
			return &s
		}
	}
	return nil
}

var c09Vals = []int{0x00, 0x01, 0x7f, 0x80, 0xff, -1, -2}

func c09SetByte(b []byte, pos, val int) {
	switch val {
	case -1:
		b[pos]++
	case -2:
		b[pos]--
	default:
		b[pos] = byte(val)
	}
}

func c09Apply(seed []byte, m C09Mut) []byte {
	switch m.Kind {
	case "none":
		return seed
	case "trunc":
		return seed[:m.Pos]
	case "set":
		out := append([]byte{}, seed...)
		c09SetByte(out, m.Pos, m.Val)
		return out
	case "set2":
		out := append([]byte{}, seed...)
		c09SetByte(out, m.Pos, m.Val)
		c09SetByte(out, m.Pos2, m.Val2)
		return out
	case "field":
		var hb []byte
		fmt.Sscanf(m.Hex, "%x", &hb)
		out := append([]byte{}, seed[:m.Pos]...)
		out = append(out, hb...)
		return append(out, seed[m.Pos+m.OldLen:]...)
	}
	panic(m.Kind)
}

// c09Mutants enumerates the mutants of a class for a seed.
func c09Mutants(s *c09Seed, class string, emit func(C09Mut)) {
	switch class {
	case "byte":
		emit(C09Mut{Kind: "none"})
		for p := 0; p < len(s.bytes); p++ {
			for _, v := range c09Vals {
				if v >= 0 && int(s.bytes[p]) == v {
					continue
				}
				emit(C09Mut{Kind: "set", Pos: p, Val: v})
			}
			emit(C09Mut{Kind: "trunc", Pos: p})
		}
	case "pair":
		for i, p := range s.struct_ {
			for _, q := range s.struct_[i+1:] {
				for _, v := range c09Vals {
					for _, w := range c09Vals {
						emit(C09Mut{Kind: "set2", Pos: p, Val: v, Pos2: q, Val2: w})
					}
				}
			}
		}
	case "fields":
		// product of boundary values over the fixed-width fields of one group, and each varint alone
		var fixed []c09Field
		for _, f := range s.fields {
			if f.width == 0 {
				for _, v := range f.values {
					emit(C09Mut{Kind: "field", Pos: f.pos, OldLen: f.varlen, Hex: fmt.Sprintf("%x", refcar.PutUvarint(v))})
					// and a non-minimal / over-long encoding of the same value
					emit(C09Mut{Kind: "field", Pos: f.pos, OldLen: f.varlen, Hex: fmt.Sprintf("%x", append(bytes.Repeat([]byte{0x80}, 9), 0x01))})
				}
				continue
			}
			fixed = append(fixed, f)
		}
		groups := map[string][]c09Field{}
		var order []string
		for _, f := range fixed {
			g := strings.SplitN(f.name, ".", 2)[0]
			if _, ok := groups[g]; !ok {
				order = append(order, g)
			}
			groups[g] = append(groups[g], f)
		}
		for _, g := range order {
			fs := groups[g]
			// full product for up to 3 fields; for more, product over each consecutive triple
			for start := 0; start+1 <= len(fs); start += 2 {
				end := start + 3
				if end > len(fs) {
					end = len(fs)
				}
				tri := fs[start:end]
				var rec func(i int, cur []byte)
				first := tri[0].pos
				span := tri[len(tri)-1].pos + tri[len(tri)-1].width - first
				var recf func(i int, buf []byte)
				recf = func(i int, buf []byte) {
					if i == len(tri) {
						emit(C09Mut{Kind: "field", Pos: first, OldLen: span, Hex: fmt.Sprintf("%x", buf)})
						return
					}
					f := tri[i]
					for _, v := range f.values {
						b := append([]byte{}, buf...)
						off := f.pos - first
						if f.width == 4 {
							binary.LittleEndian.PutUint32(b[off:], uint32(v))
						} else {
							binary.LittleEndian.PutUint64(b[off:], v)
						}
						recf(i+1, b)
					}
				}
				_ = rec
				recf(0, append([]byte{}, s.bytes[first:first+span]...))
				if end == len(fs) {
					break
				}
			}
		}
	}
}

// ---------------------------------------------------------------- entry points

type c09Env struct {
	dir   string
	steps int64
}

type stepReader struct {
	r   *bytes.Reader
	env *c09Env
}

func (s *stepReader) Read(p []byte) (int, error) { s.env.steps++; return s.r.Read(p) }
func (s *stepReader) ReadAt(p []byte, o int64) (int, error) {
	s.env.steps++
	return s.r.ReadAt(p, o)
}
func (s *stepReader) Seek(o int64, w int) (int64, error) { s.env.steps++; return s.r.Seek(o, w) }

type stepStream struct {
	r   *bytes.Reader
	env *c09Env
}

func (s *stepStream) Read(p []byte) (int, error) { s.env.steps++; return s.r.Read(p) }

type c09Entry struct {
	name  string
	index bool   // takes a serialized index rather than an archive
	v1    bool   // reads CARv1 only: run on CARv1 seeds
	buf   string // "header", "section", "both" or "" — which limits it buffers against
	run   func(in []byte, o drv.Opts, env *c09Env) error
}

var c09Queries = []string{"a", "b", "i", "s"}

func c09DrainBR(br *carv2.BlockReader, mode int) error {
	for i := 0; ; i++ {
		var err error
		skip := mode == 1 || (mode == 2 && i%2 == 1)
		if skip {
			_, err = br.SkipNext()
		} else {
			_, err = br.Next()
		}
		if err != nil {
			if err == io.EOF {
				return nil
			}
			return err
		}
		if i > 1<<20 {
			return errors.New("c09: iteration does not terminate")
		}
	}
}

func c09Entries() []c09Entry {
	ctx := context.Background()
	mkBR := func(name string, stream bool, mode int) c09Entry {
		return c09Entry{name: name, buf: "both", run: func(in []byte, o drv.Opts, env *c09Env) error {
			var src io.Reader = &stepReader{bytes.NewReader(in), env}
			if stream {
				src = &stepStream{bytes.NewReader(in), env}
			}
			br, err := carv2.NewBlockReader(src, o.List()...)
			if err != nil {
				return err
			}
			return c09DrainBR(br, mode)
		}}
	}
	queryRA := func(ra drv.RA) error {
		var first error
		for _, q := range c09Queries {
			b := kit.B(q)
			if _, err := ra.Has(b.Cid); err != nil && first == nil {
				first = err
			}
			if _, err := ra.Get(b.Cid); err != nil && first == nil && !isNotFound(err) {
				first = err
			}
			if _, err := ra.Size(b.Cid); err != nil && first == nil && !isNotFound(err) {
				first = err
			}
		}
		if _, err := ra.Keys(); err != nil && err != drv.ErrNoListing && first == nil {
			first = err
		}
		if _, err := ra.Roots(); err != nil && first == nil {
			first = err
		}
		return first
	}
	writeTmp := func(env *c09Env, in []byte) string {
		p := filepath.Join(env.dir, "c09-in.car")
		if err := os.WriteFile(p, in, 0o644); err != nil {
			panic(err)
		}
		return p
	}
	return []c09Entry{
		{name: "Reader", buf: "header", run: func(in []byte, o drv.Opts, env *c09Env) error {
			rd, err := carv2.NewReader(&stepReader{bytes.NewReader(in), env}, o.List()...)
			if err != nil {
				return err
			}
			if _, err := rd.Roots(); err != nil {
				return err
			}
			dr, err := rd.DataReader()
			if err != nil {
				return err
			}
			if _, err := io.CopyN(io.Discard, dr, int64(len(in))+1); err != nil && err != io.EOF {
				return err
			}
			ir, err := rd.IndexReader()
			if err != nil {
				return err
			}
			if ir != nil {
				if _, err := io.CopyN(io.Discard, ir, int64(len(in))+1); err != nil && err != io.EOF {
					return err
				}
			}
			return nil
		}},
		{name: "Inspect(true)", buf: "both", run: func(in []byte, o drv.Opts, env *c09Env) error {
			rd, err := carv2.NewReader(&stepReader{bytes.NewReader(in), env}, o.List()...)
			if err != nil {
				return err
			}
			_, err = rd.Inspect(true)
			return err
		}},
		{name: "Inspect(false)", buf: "both", run: func(in []byte, o drv.Opts, env *c09Env) error {
			rd, err := carv2.NewReader(&stepReader{bytes.NewReader(in), env}, o.List()...)
			if err != nil {
				return err
			}
			_, err = rd.Inspect(false)
			return err
		}},
		mkBR("BlockReader.Next", false, 0), mkBR("BlockReader.Next/stream", true, 0),
		mkBR("BlockReader.SkipNext", false, 1), mkBR("BlockReader.SkipNext/stream", true, 1),
		mkBR("BlockReader.alternate", false, 2), mkBR("BlockReader.alternate/stream", true, 2),
		{name: "GenerateIndex", buf: "header", run: func(in []byte, o drv.Opts, env *c09Env) error {
			_, err := carv2.GenerateIndex(&stepReader{bytes.NewReader(in), env}, o.List()...)
			return err
		}},
		{name: "GenerateIndex/stream", buf: "header", run: func(in []byte, o drv.Opts, env *c09Env) error {
			_, err := carv2.GenerateIndex(&stepStream{bytes.NewReader(in), env}, o.List()...)
			return err
		}},
		{name: "LoadIndex(insertion)", buf: "header", run: func(in []byte, o drv.Opts, env *c09Env) error {
			return carv2.LoadIndex(index.NewInsertionIndex(), &stepReader{bytes.NewReader(in), env}, o.List()...)
		}},
		{name: "ReadOrGenerateIndex", buf: "header", run: func(in []byte, o drv.Opts, env *c09Env) error {
			_, err := carv2.ReadOrGenerateIndex(&stepReader{bytes.NewReader(in), env}, o.List()...)
			return err
		}},
		{name: "index.ReadFrom", index: true, run: func(in []byte, o drv.Opts, env *c09Env) error {
			idx, err := index.ReadFrom(&stepStream{bytes.NewReader(in), env})
			if err != nil {
				return err
			}
			for _, q := range c09Queries {
				idx.GetAll(kit.B(q).Cid, func(uint64) bool { return true })
			}
			return nil
		}},
		{name: "NewReadOnly", buf: "header", run: func(in []byte, o drv.Opts, env *c09Env) error {
			bs, err := blockstore.NewReadOnly(&stepReader{bytes.NewReader(in), env}, nil, o.List()...)
			if err != nil {
				return err
			}
			return queryRA(drv.WrapBS(bs))
		}},
		{name: "OpenReadable", buf: "header", run: func(in []byte, o drv.Opts, env *c09Env) error {
			st, err := storage.OpenReadable(&stepReader{bytes.NewReader(in), env}, o.List()...)
			if err != nil {
				return err
			}
			return queryRA(drv.WrapST(st))
		}},
		{name: "ReplaceRootsInFile", buf: "header", run: func(in []byte, o drv.Opts, env *c09Env) error {
			p := writeTmp(env, in)
			defer os.Remove(p)
			return carv2.ReplaceRootsInFile(p, []cid.Cid{kit.B("b").Cid}, o.List()...)
		}},
		{name: "ExtractV1File", buf: "header", run: func(in []byte, o drv.Opts, env *c09Env) error {
			p := writeTmp(env, in)
			defer os.Remove(p)
			dst := filepath.Join(env.dir, "c09-out.car")
			defer os.Remove(dst)
			return carv2.ExtractV1File(p, dst, o.List()...)
		}},
		{name: "WrapV1", buf: "header", run: func(in []byte, o drv.Opts, env *c09Env) error {
			return carv2.WrapV1(&stepReader{bytes.NewReader(in), env}, io.Discard, o.List()...)
		}},
		{name: "ReadVersion", buf: "header", run: func(in []byte, o drv.Opts, env *c09Env) error {
			_, err := carv2.ReadVersion(&stepStream{bytes.NewReader(in), env}, o.List()...)
			return err
		}},
		{name: "root.CarReader", v1: true, buf: "root", run: func(in []byte, o drv.Opts, env *c09Env) error {
			cr, err := carv1.NewCarReaderWithOptions(&stepStream{bytes.NewReader(in), env})
			if err != nil {
				return err
			}
			for i := 0; ; i++ {
				if _, err := cr.Next(); err != nil {
					if err == io.EOF {
						return nil
					}
					return err
				}
				if i > 1<<20 {
					return errors.New("c09: iteration does not terminate")
				}
			}
		}},
		{name: "root.LoadCar", v1: true, buf: "root", run: func(in []byte, o drv.Opts, env *c09Env) error {
			_, err := carv1.LoadCar(ctx, &drvNullStore{}, &stepStream{bytes.NewReader(in), env})
			return err
		}},
		{name: "root.ReadHeader", v1: true, buf: "root", run: func(in []byte, o drv.Opts, env *c09Env) error {
			_, err := carv1.ReadHeader(bufio.NewReader(&stepStream{bytes.NewReader(in), env}))
			return err
		}},
		{name: "internal.CarReader", v1: true, buf: "both", run: func(in []byte, o drv.Opts, env *c09Env) error {
			mh, ms := o.MaxHeader, o.MaxSect
			if mh == 0 {
				mh = carv2.DefaultMaxAllowedHeaderSize
			}
			if ms == 0 {
				ms = carv2.DefaultMaxAllowedSectionSize
			}
			cr, err := verifbridge.NewCarV1ReaderWithoutDefaults(&stepStream{bytes.NewReader(in), env}, o.ZeroEOF, mh, ms)
			if err != nil {
				return err
			}
			for i := 0; ; i++ {
				if _, err := cr.Next(); err != nil {
					if err == io.EOF {
						return nil
					}
					return err
				}
				if i > 1<<20 {
					return errors.New("c09: iteration does not terminate")
				}
			}
		}},
	}
}

type drvNullStore struct{}

func (drvNullStore) Put(context.Context, blocks.Block) error { return nil }

// ---------------------------------------------------------------- child process

type c09Viol struct {
	Sig   string `json:"sig"`
	Msg   string `json:"msg"`
	Mut   C09Mut `json:"mut"`
	Entry string `json:"entry"`
}

type c09Result struct {
	Runs       int       `json:"runs"`
	Mutants    int       `json:"mutants"`
	Accepted   int       `json:"accepted"`
	Rejected   int       `json:"rejected"`
	MaxAlloc   uint64    `json:"max_alloc"`
	MaxSteps   int64     `json:"max_steps"`
	Violations []c09Viol `json:"violations"`
}

func allocBytes(s []metrics.Sample) uint64 {
	metrics.Read(s)
	return s[0].Value.Uint64()
}

func c09Opts(cs C09Case, seedLen int) drv.Opts {
	o := drv.Opts{ZeroEOF: cs.Zero}
	if cs.Limit == "small" {
		o.MaxHeader, o.MaxSect = 4096, 4096
	}
	return o
}

// C09ChildMain runs every mutant of the case against every entry point, in this process.
func C09ChildMain(arg, progressPath string) int {
	var cs C09Case
	if err := json.Unmarshal([]byte(arg), &cs); err != nil {
		fmt.Fprintln(os.Stderr, err)
		return 2
	}
	// address-space limit: a length-driven allocation must fail loudly, not eat the machine
	lim := uint64(6 << 30)
	syscall.Setrlimit(syscall.RLIMIT_AS, &syscall.Rlimit{Cur: lim, Max: lim})
	debug.SetGCPercent(100)
	seed := c09FindSeed(cs.Seed)
	if seed == nil {
		fmt.Fprintln(os.Stderr, "unknown seed")
		return 2
	}
	dir, err := os.MkdirTemp("/dev/shm", "c09c")
	if err != nil {
		dir, _ = os.MkdirTemp("", "c09c")
	}
	defer os.RemoveAll(dir)
	prog, _ := os.OpenFile(progressPath, os.O_CREATE|os.O_WRONLY|os.O_TRUNC, 0o644)
	res := &c09Result{}
	entries := c09Entries()
	o := c09Opts(cs, len(seed.bytes))
	if cs.Limit == "small" {
		v1util.MaxAllowedSectionSize = 4096
	}
	sample := []metrics.Sample{{Name: "/gc/heap/allocs:bytes"}}
	seen := map[string]bool{}
	type job struct {
		m C09Mut
	}
	ordinal := -1
	isV2 := bytes.HasPrefix(seed.bytes, refcar.Pragma)
	runOne := func(m C09Mut) {
		ordinal++
		if ordinal < cs.From {
			return
		}
		in := c09Apply(seed.bytes, m)
		res.Mutants++
		// allocation bound: configured maxima + proportional to the input + slack
		mh, ms := uint64(32<<20), uint64(8<<20)
		if cs.Limit == "small" {
			mh, ms = 4096, 4096
		}
		for _, e := range entries {
			if e.index != seed.isIdx || (e.v1 && isV2) {
				continue
			}
			if cs.Entry != "" && e.name != cs.Entry {
				continue
			}
			bound := mh + ms + 1024*uint64(len(in)) + (1 << 20)
			if e.buf == "" || e.index {
				bound = 1024*uint64(len(in)) + (1 << 20)
			}
			if e.buf == "root" && cs.Limit != "small" {
				bound = uint64(32<<20)*2 + 1024*uint64(len(in)) + (1 << 20)
			}
			// announce before running: a fatal error is attributed to this (mutant, entry)
			if prog != nil {
				mb, _ := json.Marshal(map[string]any{"mut": m, "entry": e.name, "ordinal": ordinal})
				prog.Truncate(0)
				prog.WriteAt(mb, 0)
			}
			env := &c09Env{dir: dir}
			before := allocBytes(sample)
			var perr any
			var stack string
			var rerr error
			done := make(chan struct{})
			go func() {
				defer close(done)
				defer func() {
					if r := recover(); r != nil {
						perr = r
						stack = string(debug.Stack())
					}
				}()
				rerr = e.run(in, o, env)
			}()
			select {
			case <-done:
			case <-time.After(20 * time.Second):
				fmt.Printf("{\"hang\":true}\n")
				os.Exit(3)
			}
			delta := allocBytes(sample) - before
			if delta > 64<<20 {
				debug.FreeOSMemory()
			}
			res.Runs++
			if rerr == nil {
				res.Accepted++
			} else {
				res.Rejected++
			}
			if delta > res.MaxAlloc {
				res.MaxAlloc = delta
			}
			if env.steps > res.MaxSteps {
				res.MaxSteps = env.steps
			}
			add := func(sig, msg string) {
				if !seen[sig] {
					seen[sig] = true
					res.Violations = append(res.Violations, c09Viol{Sig: sig, Msg: msg, Mut: m, Entry: e.name})
				}
			}
			if perr != nil {
				add("c09:panic:"+e.name+":"+c09PanicFrame(stack), fmt.Sprintf("%s panics: %v\n%s", e.name, perr, clipS(stack, 1500)))
			}
			if delta > bound {
				region := seed.region(m.Pos)
				if m.Kind == "set2" && seed.region(m.Pos2) == "section-cid" {
					region = "section-cid"
				}
				if region == "section-cid" && delta <= bound+(33<<20) {
					// the multihash length varint inside a section's CID: go-cid's CidFromReader
					// pre-allocates the claimed digest length (capped at 32 MiB) before reading
					region = "cid-digest-prealloc"
				}
				add("c09:alloc:"+region+":"+e.name, fmt.Sprintf("%s allocated %d bytes on a %d-byte input (bound %d = header max + section max + 1 KiB/byte + 1 MiB)", e.name, delta, len(in), bound))
			}
			stepBound := int64(64 * (len(in) + 64))
			if env.steps > stepBound {
				add("c09:steps:"+e.name, fmt.Sprintf("%s issued %d reads/seeks on a %d-byte input (budget %d)", e.name, env.steps, len(in), stepBound))
			}
			if rerr != nil && strings.Contains(rerr.Error(), "c09: iteration does not terminate") {
				add("c09:nonterminating:"+e.name, fmt.Sprintf("%s keeps returning blocks", e.name))
			}
		}
	}
	if cs.Mut != nil {
		runOne(*cs.Mut)
	} else {
		c09Mutants(seed, cs.Class, runOne)
	}
	b, _ := json.Marshal(res)
	fmt.Println(string(b))
	return 0
}

func c09PanicFrame(st string) string {
	for _, l := range strings.Split(st, "\n") {
		l = strings.TrimSpace(l)
		if strings.HasPrefix(l, "github.com/ipld/go-car") && !strings.Contains(l, "verifbridge") {
			if i := strings.LastIndex(l, "("); i > 0 {
				l = l[:i]
			}
			return strings.TrimPrefix(l, "github.com/ipld/go-car/")
		}
	}
	return "unknown"
}

// ---------------------------------------------------------------- coordinator

// c09Child runs one child process; died reports that it did not finish, with the announced position.
func c09Child(cs C09Case, dir string) (res *c09Result, died bool, ordinal int, mut C09Mut, entry, kind, stderrText string) {
	arg, _ := json.Marshal(cs)
	progress := filepath.Join(dir, "c09-progress.json")
	os.Remove(progress)
	self, err := os.Executable() // the very binary that is running (not whatever bin/worker is by now)
	if err != nil {
		self = filepath.Join(kit.VerifDir, "bin", "worker")
	}
	cmd := exec.Command(self, "C09-child", string(arg), progress)
	cmd.Env = append(os.Environ(), "GOMAXPROCS=2", "GOGC=100")
	var stderr bytes.Buffer
	cmd.Stderr = &stderr
	out, err := cmd.Output()
	if err == nil && bytes.Contains(out, []byte("\"runs\"")) {
		var r c09Result
		if json.Unmarshal(bytes.TrimSpace(lastLine(out)), &r) == nil {
			return &r, false, 0, C09Mut{}, "", "", ""
		}
	}
	pb, _ := os.ReadFile(progress)
	var p struct {
		Mut     C09Mut `json:"mut"`
		Entry   string `json:"entry"`
		Ordinal int    `json:"ordinal"`
	}
	json.Unmarshal(pb, &p)
	kind = "fatal"
	se := stderr.String()
	switch {
	case bytes.Contains(out, []byte("\"hang\"")):
		kind = "hang"
	case strings.Contains(se, "out of memory") || strings.Contains(se, "cannot allocate memory"):
		kind = "out-of-memory"
	}
	return nil, true, p.Ordinal, p.Mut, p.Entry, kind, firstLines(se, 12)
}

func runC09(c any, x *kit.Ctx) {
	cs := c.(C09Case)
	if cs.Class == "limits" {
		runC09Limits(cs, x)
		return
	}
	total := &c09Result{}
	merge := func(r *c09Result) {
		total.Runs += r.Runs
		total.Mutants += r.Mutants
		total.Accepted += r.Accepted
		total.Rejected += r.Rejected
		if r.MaxAlloc > total.MaxAlloc {
			total.MaxAlloc = r.MaxAlloc
		}
		if r.MaxSteps > total.MaxSteps {
			total.MaxSteps = r.MaxSteps
		}
		total.Violations = append(total.Violations, r.Violations...)
	}
	run := cs
	for restarts := 0; ; restarts++ {
		res, died, ord, mut, entry, kind, se := c09Child(run, x.Dir)
		if !died {
			merge(res)
			break
		}
		if cs.Mut != nil {
			// isolated run of one mutant (replay or confirmation): the death IS the observation
			rc := cs
			rc.Entry = entry
			sig := "c09:" + kind + ":" + entry
			if kind != "fatal" {
				// resource exhaustion in all its forms is one class per region and entry point
				sig = "c09:alloc:" + c09FindSeed(cs.Seed).region(mut.Pos) + ":" + entry
			}
			x.FailCase(rc, sig, "the process died (%s) while %s parsed mutant %+v of seed %s: %s", kind, entry, mut, cs.Seed, clipS(se, 1200))
			return
		}
		// run the announced mutant alone, every entry point in its own child, so that the
		// verdict does not depend on what earlier mutants left in the process
		for _, e := range c09Entries() {
			iso := cs
			iso.From = 0
			m := mut
			iso.Mut = &m
			iso.Entry = e.name
			r2, died2, _, _, _, kind2, se2 := c09Child(iso, x.Dir)
			if died2 {
				sig := "c09:" + kind2 + ":" + e.name
				if kind2 != "fatal" {
					sig = "c09:alloc:" + c09FindSeed(cs.Seed).region(m.Pos) + ":" + e.name
				}
				total.Violations = append(total.Violations, c09Viol{Sig: sig, Msg: fmt.Sprintf("the process died (%s): %s", kind2, clipS(se2, 1200)), Mut: m, Entry: e.name})
				continue
			}
			merge(r2)
		}
		x.Count("child_restarts", 1)
		run.From = ord + 1
		if restarts > 2000 {
			x.Fail("c09:harness:too-many-restarts", "child process died more than 2000 times for %+v", cs)
			return
		}
	}
	res := total
	x.Eval(res.Runs)
	x.Transition(res.Runs)
	x.AddStates(res.Mutants)
	x.Count("mutants", res.Mutants)
	x.Count("accepted_runs", res.Accepted)
	x.Count("rejected_runs", res.Rejected)
	x.Note(fmt.Sprintf("%s/%s/%s/zero=%v", cs.Seed, cs.Class, cs.Limit, cs.Zero), map[string]any{"mutants": res.Mutants, "runs": res.Runs, "accepted": res.Accepted, "rejected": res.Rejected, "max_alloc_bytes": res.MaxAlloc, "max_reader_steps": res.MaxSteps})
	x.Outcome(fmt.Sprintf("%s:%s", cs.Class, cs.Limit))
	x.Nontrivial(fmt.Sprintf("%s|%s|%s|%v", cs.Seed, cs.Class, cs.Limit, cs.Zero))
	seen := map[string]bool{}
	for _, v := range res.Violations {
		if seen[v.Sig] {
			continue
		}
		seen[v.Sig] = true
		rc := cs
		rc.From = 0
		m := v.Mut
		rc.Mut = &m
		rc.Entry = v.Entry
		x.FailCase(rc, v.Sig, "seed %s mutant %+v: %s", cs.Seed, v.Mut, v.Msg)
	}
}

func firstLines(s string, n int) string {
	l := strings.Split(s, "\n")
	if len(l) > n {
		l = l[:n]
	}
	return strings.Join(l, "\n")
}

func lastLine(b []byte) []byte {
	b = bytes.TrimSpace(b)
	if i := bytes.LastIndexByte(b, '\n'); i >= 0 {
		return b[i+1:]
	}
	return b
}

// runC09Limits: an over-limit header/section is rejected with the too-large error and an
// exactly-at-limit one accepted, at every entry point that buffers one.
func runC09Limits(cs C09Case, x *kit.Ctx) {
	seed := c09FindSeed(cs.Seed)
	var pl *refcar.Payload
	in := seed.bytes
	window := in
	if bytes.HasPrefix(in, refcar.Pragma) {
		h := refcar.ParseV2Header(in[11:51])
		window = in[h.DataOffset : h.DataOffset+h.DataSize]
	}
	pl, err := refcar.DecodePayload(window, false, true)
	if err != nil {
		panic(err)
	}
	hdrBody := pl.HeaderLen - uint64(refcar.UvarintSize(pl.HeaderLen-1))
	// the pragma of a CARv2 is itself read as a header (10 bytes); the binding header is the larger
	var maxSect uint64
	for _, s := range pl.Sections {
		if l := uint64(len(s.Cid) + len(s.Data)); l > maxSect {
			maxSect = l
		}
	}
	env := &c09Env{dir: x.Dir}
	isV2 := bytes.HasPrefix(in, refcar.Pragma)
	innerHeader := map[string]bool{"Reader": true, "Inspect(true)": true, "Inspect(false)": true, "BlockReader.Next": true, "BlockReader.Next/stream": true, "BlockReader.SkipNext": true,
		"BlockReader.SkipNext/stream": true, "BlockReader.alternate": true, "BlockReader.alternate/stream": true, "GenerateIndex": true, "GenerateIndex/stream": true, "LoadIndex(insertion)": true, "NewReadOnly": true, "ReplaceRootsInFile": true}
	for _, e := range c09Entries() {
		if e.index || e.buf == "" || e.buf == "root" {
			continue
		}
		if isV2 && (e.v1 || !innerHeader[e.name]) {
			continue // on a CARv2 only some entry points ever buffer the inner header
		}
		x.Eval(1)
		// exactly at the limit: accepted
		o := drv.Opts{MaxHeader: hdrBody, MaxSect: maxSect}
		if maxSect == 0 {
			o.MaxSect = 1
		}
		errAt := e.run(in, o, env)
		if errAt != nil && (isTooLarge(errAt)) {
			x.Fail("c09:limit-exact-rejected:"+e.name, "%s rejects a header of %d / section of %d bytes with limits exactly %d / %d: %v", e.name, hdrBody, maxSect, o.MaxHeader, o.MaxSect, errAt)
		}
		// header one over the limit: rejected with the too-large error
		o2 := drv.Opts{MaxHeader: hdrBody - 1, MaxSect: o.MaxSect}
		err2 := e.run(in, o2, env)
		if err2 == nil || !strings.Contains(err2.Error(), "invalid header data, length of read beyond allowable maximum") {
			x.Fail("c09:limit-header-not-enforced:"+e.name, "%s with MaxAllowedHeaderSize %d on a %d-byte header returned %v, want the header-too-large error", e.name, hdrBody-1, hdrBody, err2)
		}
		if e.buf == "both" && maxSect > 1 {
			o3 := drv.Opts{MaxHeader: hdrBody, MaxSect: maxSect - 1}
			err3 := e.run(in, o3, env)
			if err3 == nil || !strings.Contains(err3.Error(), "invalid section data, length of read beyond allowable maximum") {
				x.Fail("c09:limit-section-not-enforced:"+e.name, "%s with MaxAllowedSectionSize %d on a %d-byte section returned %v, want the section-too-large error", e.name, maxSect-1, maxSect, err3)
			}
		}
		x.Nontrivial("limits|" + cs.Seed + "|" + e.name)
	}
	x.State("limits|" + cs.Seed)
	x.Outcome("limits")
}

func isTooLarge(err error) bool {
	return err != nil && strings.Contains(err.Error(), "length of read beyond allowable maximum")
}

func genC09(tier string, emit func(any)) {
	for _, s := range c09Seeds() {
		for _, limit := range []string{"small", "default"} {
			for _, zero := range []bool{false, true} {
				if s.isIdx && (zero || limit == "default") {
					continue
				}
				emit(C09Case{Seed: s.name, Class: "byte", Limit: limit, Zero: zero})
				if limit == "small" {
					emit(C09Case{Seed: s.name, Class: "fields", Limit: limit, Zero: zero})
				}
				if tier == "thorough" && limit == "small" && !zero {
					emit(C09Case{Seed: s.name, Class: "pair", Limit: limit, Zero: zero})
				}
			}
		}
		if !s.isIdx {
			emit(C09Case{Seed: s.name, Class: "limits"})
		}
	}
}

func init() {
	kit.Register(&kit.Prop{
		ID:     "C09",
		Gen:    genC09,
		Run:    runC09,
		Decode: kit.DecodeAs[C09Case],
		Rule: "deviation-bounded mutation of valid seeds (CARv1/CARv2/padded/index-less archives and detached indexes of both codecs): 0 deviations; EVERY position x byte alphabet {00,01,7f,80,ff,+1,-1} and EVERY truncation (1 deviation); thorough: all pairs inside the structural regions (2 deviations); plus the product of boundary values of every numeric field (CARv2 header offsets/sizes; header and section length varints incl. over-long encodings; index count/code/width/length fields) " +
			"x {small limits 4 KiB, default limits} x ZeroLengthSectionAsEOF x every parsing entry point (26), each run in a child process with an address-space limit; oracle: no panic, no fatal error (child death is attributed to the announced input), reads/seeks within 64*(len+64), allocation <= header max + section max + 1 KiB/byte + 1 MiB, limits enforced exactly; states = mutants, executions = (mutant, entry point) runs",
		Bound: func(tier string) map[string]any {
			if tier == "thorough" {
				return map[string]any{"deviations": 2, "entry_points": len(c09Entries()), "seeds": len(c09Seeds())}
			}
			return map[string]any{"deviations": 1, "entry_points": len(c09Entries()), "seeds": len(c09Seeds())}
		},
		Assumptions: []string{"coverage statement over the deviation-bounded neighbourhood of the seeds and the field-boundary products, not over all byte strings", "allocation is measured with runtime/metrics /gc/heap/allocs:bytes around each call in a 2-thread child", "a 20 s watchdog per call only guards the harness; a hang is reported as such and re-executed 5 times before it is believed"},
	})
}
