package props

import (
	"bufio"
	"bytes"
	"context"
	"encoding/binary"
	"encoding/json"
	"errors"
	"fmt"
	"io"
	"os"
	"os/exec"
	"path/filepath"
	"regexp"
	"runtime/debug"
	"runtime/metrics"
	"sort"
	"strings"
	"sync"
	"syscall"
	"time"

	blocks "github.com/ipfs/go-block-format"
	"github.com/ipfs/go-cid"
	carv1 "github.com/ipld/go-car"
	v1util "github.com/ipld/go-car/util"
	carv2 "github.com/ipld/go-car/v2"
	"github.com/ipld/go-car/v2/blockstore"
	"github.com/ipld/go-car/v2/index"
	"github.com/ipld/go-car/v2/storage"
	"github.com/ipld/go-car/v2/verifbridge"

	"verif/drv"
	"verif/kit"
	"verif/refcar"
)

// ---------------------------------------------------------------- seeds and mutations

type C09Mut struct {
	Kind string `json:"kind"` // none, set, trunc, set2, field
	Pos  int    `json:"pos,omitempty"`
	Val  int    `json:"val,omitempty"`
	Pos2 int    `json:"pos2,omitempty"`
	Val2 int    `json:"val2,omitempty"`
	// field: overwrite [Pos, Pos+len(Bytes)) with Bytes (hex), or replace a varint
	Hex    string `json:"hex,omitempty"`
	OldLen int    `json:"oldlen,omitempty"` // bytes replaced (varint replacement may change length)
	// field: name and value of a single length varint that was replaced (drives the expected
	// too-large error); Repair re-computes DataSize/IndexOffset of an enclosing CARv2 header
	Field  string `json:"field,omitempty"`
	FV     uint64 `json:"fv,omitempty"`
	Repair bool   `json:"repair,omitempty"`
	// hdr / sec: replace [Pos, Pos+OldLen) of the header body / of section 0's body with Hex and
	// re-encode the enclosing length varint (and the CARv2 header)
	Note string `json:"note,omitempty"`
	// Claim: the length a planted CBOR string/bytes head claims (what the CBOR decoder pre-allocates)
	Claim uint64 `json:"claim,omitempty"`
}

type C09Case struct {
	Seed  string `json:"seed"`
	Class string `json:"class"` // byte, pair, fields, cbor, struct, limits
	Limit string `json:"limit"` // default, small (header 4096 / section 2048), swap (2048 / 4096)
	Zero  bool   `json:"zero,omitempty"`
	Set   string `json:"set,omitempty"` // "" = core entry points, "ext" = extended (source kinds, files, resume, ...)
	Opt   string `json:"opt,omitempty"` // option variant: "", sw, tm, so
	// Shards > 0: only the mutants whose ordinal is Shard modulo Shards (splits a long enumeration over workers)
	Shard  int     `json:"shard,omitempty"`
	Shards int     `json:"shards,omitempty"`
	From   int     `json:"from,omitempty"`  // skip the first From mutants (restart after a child death)
	Mut    *C09Mut `json:"mut,omitempty"`   // replay: only this mutant
	Entry  string  `json:"entry,omitempty"` // replay: only this entry point
}

type c09Seed struct {
	name    string
	bytes   []byte
	isIdx   bool
	iidx    bool // serialized InsertionIndex (only InsertionIndex.Unmarshal reads it)
	region  func(pos int) string
	struct_ []int // structural byte positions for 2-deviation pairs
	fields  []c09Field
	// layout (archives)
	cont    string // v1, v2, v2pad, v2noidx
	base    int    // offset of the CARv1 payload
	hdrLen  int    // length of the CARv1 header incl. its length varint
	hdrVar  int    // length of that varint
	sec0    int    // file offset of section 0 (-1: none)
	sec0Var int    // length of its length varint
	sec0Len int    // its body length
	large   bool   // too long for the every-position classes
	pl      *refcar.Payload
}

type c09Field struct {
	name   string
	pos    int
	width  int // fixed-width little-endian field (4 or 8), or 0 for a varint
	varlen int // current varint length
	values []uint64
}

var (
	c09SeedOnce sync.Once
	c09SeedList []c09Seed
)

// c09Seeds builds the seed list once per process.
func c09Seeds() []c09Seed {
	c09SeedOnce.Do(func() { c09SeedList = c09BuildSeeds() })
	return c09SeedList
}

func c09BuildSeeds() []c09Seed {
	var out []c09Seed
	mkR := func(name string, seq []string, cont string, rootSet string, large bool) {
		_, rootRaws, _ := kit.Roots(rootSet)
		var rb []refcar.Block
		for _, b := range kit.Bs(seq) {
			rb = append(rb, b.Ref())
		}
		payload := refcar.EncodeV1(rootRaws, false, rb)
		pl, _ := refcar.DecodePayload(payload, false, true)
		s := c09Seed{name: name, cont: cont, large: large, sec0: -1}
		base := 0
		switch cont {
		case "v1":
			s.bytes = payload
		case "v2":
			s.bytes = refcar.EncodeV2(payload, 0, 0, refcar.EncodeIndex(refcar.CodecMhIndexSorted, refcar.RecordsOf(pl, false)), false)
			base = 51
		case "v2pad":
			s.bytes = refcar.EncodeV2(payload, 2, 1, refcar.EncodeIndex(refcar.CodecIndexSorted, refcar.RecordsOf(pl, false)), false)
			base = 53
		case "v2noidx":
			s.bytes = refcar.EncodeV2(payload, 0, 0, nil, false)
			base = 51
		}
		size := uint64(len(payload))
		// structural regions: pragma, v2 header, v1 header prefix, first section prefix, index prefix
		add := func(from, to int) {
			for p := from; p < to && p < len(s.bytes); p++ {
				s.struct_ = append(s.struct_, p)
			}
		}
		if base > 0 {
			add(0, 11)
			add(27, 51) // offsets/sizes of the v2 header
			bv := []uint64{0, 1, 50, 51, 52, size - 1, size, size + 1, uint64(len(s.bytes)), 1 << 31, 1 << 32, 1<<63 - 1, 1 << 63, 1<<64 - 1}
			s.fields = append(s.fields, c09Field{name: "v2.DataOffset", pos: 27, width: 8, values: bv}, c09Field{name: "v2.DataSize", pos: 35, width: 8, values: bv}, c09Field{name: "v2.IndexOffset", pos: 43, width: 8, values: bv})
		}
		add(base, base+4)
		lens := []uint64{0, 1, 2, 127, 128, 1023, 1024, 1025, 2047, 2048, 2049, 4095, 4096, 4097, 16383, 16384, 8 << 20, 8<<20 + 1, 32 << 20, 32<<20 + 1, 1 << 31, 1 << 32, 1<<63 - 1, 1 << 63, 1<<64 - 1}
		s.base = base
		s.hdrLen = int(pl.HeaderLen)
		s.hdrVar = c09VarintLenOfTotal(pl.HeaderLen)
		s.pl = pl
		s.fields = append(s.fields, c09Field{name: "v1.HeaderLen", pos: base, varlen: s.hdrVar, values: lens})
		if len(pl.Sections) > 0 {
			so := base + int(pl.Sections[0].Offset)
			add(so, so+6)
			s.sec0 = so
			s.sec0Var = c09VarintLenOfTotal(pl.Sections[0].Len)
			s.sec0Len = int(pl.Sections[0].Len) - s.sec0Var
			s.fields = append(s.fields, c09Field{name: "section0.Len", pos: so, varlen: s.sec0Var, values: lens})
			if large {
				// the last section too (its end is the end of the payload)
				last := pl.Sections[len(pl.Sections)-1]
				lo := base + int(last.Offset)
				add(lo, lo+6)
				add(base+len(payload)-3, base+len(payload))
			}
		}
		if large {
			// end of the header, and every 509th position (a prime stride) as a sample of the bulk
			add(base+s.hdrLen-4, base+s.hdrLen)
			for p := base; p < len(s.bytes); p += 509 {
				add(p, p+1)
			}
		}
		if cont == "v2" || cont == "v2pad" {
			h := refcar.ParseV2Header(s.bytes[11:51])
			io_ := int(h.IndexOffset)
			add(io_, io_+30)
			cl := refcar.UvarintSize(refcar.CodecMhIndexSorted)
			big := []uint64{0, 1, 2, 7, 8, 9, 40, 1 << 20, 32 << 20, 32<<20 + 1, 1 << 31, 1<<32 - 1}
			big64 := []uint64{0, 1, 39, 40, 41, 80, 1 << 20, 1 << 31, 1 << 32, 1 << 40, 1<<63 - 1, 1 << 63, 1<<64 - 1}
			if cont == "v2" {
				// codec | i32 #codes | u64 code | i32 #widths | u32 width | u64 len
				s.fields = append(s.fields,
					c09Field{name: "idx.codes", pos: io_ + cl, width: 4, values: big},
					c09Field{name: "idx.code", pos: io_ + cl + 4, width: 8, values: big64},
					c09Field{name: "idx.widths", pos: io_ + cl + 12, width: 4, values: big},
					c09Field{name: "idx.width", pos: io_ + cl + 16, width: 4, values: big},
					c09Field{name: "idx.len", pos: io_ + cl + 20, width: 8, values: big64})
			} else {
				s.fields = append(s.fields,
					c09Field{name: "idx.widths", pos: io_ + cl, width: 4, values: big},
					c09Field{name: "idx.width", pos: io_ + cl + 4, width: 4, values: big},
					c09Field{name: "idx.len", pos: io_ + cl + 8, width: 8, values: big64})
			}
		}
		total := len(s.bytes)
		plc := pl
		basec := base
		payloadLen := len(payload)
		s.region = func(pos int) string {
			switch {
			case basec > 0 && pos < 11:
				return "pragma"
			case basec > 0 && pos < 51:
				return "v2-header"
			case pos < basec:
				return "data-padding"
			case pos < basec+int(plc.HeaderLen):
				return "v1-header"
			case pos >= basec+payloadLen && pos < total:
				return "index"
			}
			for _, sec := range plc.Sections {
				so := basec + int(sec.Offset)
				vn := int(sec.Len) - len(sec.Cid) - len(sec.Data)
				switch {
				case pos >= so && pos < so+vn:
					return "section-length"
				case pos >= so+vn && pos < so+vn+len(sec.Cid):
					return "section-cid"
				case pos >= so+vn+len(sec.Cid) && pos < so+int(sec.Len):
					return "section-data"
				}
			}
			return "end"
		}
		// keep only the fields that exist in this seed (an index without buckets is shorter)
		var fs []c09Field
		for _, f := range s.fields {
			w := f.width
			if w == 0 {
				w = f.varlen
			}
			if f.pos+w <= len(s.bytes) {
				fs = append(fs, f)
			}
		}
		s.fields = fs
		s.struct_ = c09SortedUnique(s.struct_)
		out = append(out, s)
	}
	mk := func(name string, seq []string, cont string) { mkR(name, seq, cont, "a", false) }
	mk("v1-empty", nil, "v1")
	mk("v1-a", []string{"a"}, "v1")
	mk("v1-ai", []string{"a", "i"}, "v1")
	mk("v2-a", []string{"a"}, "v2")
	mk("v2-as", []string{"a", "s"}, "v2")
	mk("v2pad-ab", []string{"a", "b"}, "v2pad")
	mk("v2noidx-a", []string{"a"}, "v2noidx")
	mk("v2-empty", nil, "v2")
	// sizes: a section whose length varint is 2 bytes wide; a section over the small limits (3-byte
	// varint, crosses the 4 KiB bufio size of the root module); a CARv2 with a 5000-byte section; a
	// header of 100 roots (> 4 KiB)
	mk("v1-L128", []string{"a", "L128"}, "v1")
	mkR("v1-L16384", []string{"a", "L16384"}, "v1", "a", true)
	mkR("v2-L5000", []string{"a", "L5000"}, "v2", "a", true)
	mkR("v1-r100", []string{"a"}, "v1", "r100", true)
	// detached indexes: synthetic records, and the real index of the archive c09IdxArchive()
	recs := []refcar.IndexRecord{{MhCode: refcar.MhSha256, Digest: bytes.Repeat([]byte{7}, 32), Offset: 59}, {MhCode: refcar.MhSha512, Digest: bytes.Repeat([]byte{9}, 64), Offset: 100}}
	realPl, _ := refcar.DecodePayload(c09IdxArchive(), false, true)
	type idxSeed struct {
		name  string
		codec uint64
		recs  []refcar.IndexRecord
	}
	for _, is := range []idxSeed{
		{"index-400", refcar.CodecIndexSorted, recs}, {"index-401", refcar.CodecMhIndexSorted, recs},
		{"index-real-400", refcar.CodecIndexSorted, refcar.RecordsOf(realPl, false)}, {"index-real-401", refcar.CodecMhIndexSorted, refcar.RecordsOf(realPl, false)},
	} {
		codec := is.codec
		b := refcar.EncodeIndex(codec, is.recs)
		s := c09Seed{name: is.name, bytes: b, isIdx: true, sec0: -1, region: func(int) string { return "index" }}
		for p := 0; p < 40 && p < len(b); p++ {
			s.struct_ = append(s.struct_, p)
		}
		cl := 2
		big := []uint64{0, 1, 2, 7, 8, 9, 40, 1 << 20, 32 << 20, 32<<20 + 1, 1 << 31, 1<<32 - 1}
		big64 := []uint64{0, 1, 39, 40, 41, 80, 1 << 20, 1 << 31, 1 << 32, 1 << 40, 1<<63 - 1, 1 << 63, 1<<64 - 1}
		if codec == refcar.CodecMhIndexSorted {
			s.fields = []c09Field{{name: "idx.codes", pos: cl, width: 4, values: big}, {name: "idx.code", pos: cl + 4, width: 8, values: big64}, {name: "idx.widths", pos: cl + 12, width: 4, values: big}, {name: "idx.width", pos: cl + 16, width: 4, values: big}, {name: "idx.len", pos: cl + 20, width: 8, values: big64}}
		} else {
			s.fields = []c09Field{{name: "idx.widths", pos: cl, width: 4, values: big}, {name: "idx.width", pos: cl + 4, width: 4, values: big}, {name: "idx.len", pos: cl + 8, width: 8, values: big64}}
		}
		out = append(out, s)
	}
	// the serialized form of an InsertionIndex (written by go-car itself: refcar has no encoder for
	// this private format), and a hand-written record list that uses a CBOR tag-42 link
	{
		ii := index.NewInsertionIndex()
		ii.InsertNoReplace(kit.B("a").Cid, 59)
		ii.InsertNoReplace(kit.B("s").Cid, 99)
		var buf bytes.Buffer
		ii.Marshal(&buf)
		mkI := func(name string, b []byte) {
			s := c09Seed{name: name, bytes: b, isIdx: true, iidx: true, sec0: -1, region: func(int) string { return "index" }}
			for p := 0; p < 40 && p < len(b); p++ {
				s.struct_ = append(s.struct_, p)
			}
			s.fields = []c09Field{{name: "idx.count", pos: 0, width: 8, values: []uint64{0, 1, 2, 3, 1 << 20, 1 << 31, 1 << 32, 1<<63 - 1, 1 << 63, 1<<64 - 1}}}
			out = append(out, s)
		}
		mkI("index-insertion", buf.Bytes())
		hand := []byte{1, 0, 0, 0, 0, 0, 0, 0, 0xa2, 0x63, 'C', 'i', 'd', 0xd8, 0x2a, 0x58, 0x25, 0x00}
		hand = append(hand, kit.B("a").Raw...)
		hand = append(hand, 0x66, 'O', 'f', 'f', 's', 'e', 't', 0x18, 59)
		mkI("index-insertion-link", hand)
	}
	return out
}

// c09IdxArchive is the valid CARv1 the "real" detached index seeds belong to.
func c09IdxArchive() []byte {
	_, rootRaws, _ := kit.Roots("a")
	return refcar.EncodeV1(rootRaws, false, []refcar.Block{kit.B("a").Ref(), kit.B("s").Ref(), kit.B("i").Ref()})
}

func c09VarintLenOfTotal(total uint64) int {
	for n := 1; n <= 10; n++ {
		if uint64(n) < total && refcar.UvarintSize(total-uint64(n)) == n {
			return n
		}
	}
	panic("c09: no varint length")
}

func c09SortedUnique(a []int) []int {
	sort.Ints(a)
	out := a[:0]
	for i, v := range a {
		if i == 0 || v != a[i-1] {
			out = append(out, v)
		}
	}
	return out
}

func c09FindSeed(name string) *c09Seed {
	l := c09Seeds()
	for i := range l {
		if l[i].name == name {
			return &l[i]
		}
	}
	return nil
}

var c09Vals = []int{0x00, 0x01, 0x7f, 0x80, 0xff, -1, -2}

func c09SetByte(b []byte, pos, val int) {
	switch val {
	case -1:
		b[pos]++
	case -2:
		b[pos]--
	default:
		b[pos] = byte(val)
	}
}

func c09Apply(sd *c09Seed, m C09Mut) []byte {
	seed := sd.bytes
	switch m.Kind {
	case "none":
		return seed
	case "trunc":
		return seed[:m.Pos]
	case "set":
		out := append([]byte{}, seed...)
		c09SetByte(out, m.Pos, m.Val)
		return out
	case "set2":
		out := append([]byte{}, seed...)
		c09SetByte(out, m.Pos, m.Val)
		c09SetByte(out, m.Pos2, m.Val2)
		return out
	case "field":
		var hb []byte
		fmt.Sscanf(m.Hex, "%x", &hb)
		out := append([]byte{}, seed[:m.Pos]...)
		out = append(out, hb...)
		out = append(out, seed[m.Pos+m.OldLen:]...)
		if m.Repair {
			c09RepairV2(sd, out, len(hb)-m.OldLen)
		}
		return out
	case "hdr", "sec":
		// replace a piece of the header body / of section 0's body and re-encode its length prefix
		var hb []byte
		if m.Hex != "" {
			fmt.Sscanf(m.Hex, "%x", &hb)
		}
		start, vlen, blen := sd.base, sd.hdrVar, sd.hdrLen-sd.hdrVar
		if m.Kind == "sec" {
			start, vlen, blen = sd.sec0, sd.sec0Var, sd.sec0Len
		}
		body := seed[start+vlen : start+vlen+blen]
		nb := append([]byte{}, body[:m.Pos]...)
		nb = append(nb, hb...)
		nb = append(nb, body[m.Pos+m.OldLen:]...)
		out := append([]byte{}, seed[:start]...)
		out = append(out, refcar.PutUvarint(uint64(len(nb)))...)
		out = append(out, nb...)
		out = append(out, seed[start+vlen+blen:]...)
		c09RepairV2(sd, out, len(out)-len(seed))
		return out
	}
	panic(m.Kind)
}

// c09RepairV2 adjusts DataSize and IndexOffset of the CARv2 header of out after the payload grew by delta.
func c09RepairV2(sd *c09Seed, out []byte, delta int) {
	if sd.base == 0 || delta == 0 || len(out) < 51 {
		return
	}
	ds := binary.LittleEndian.Uint64(out[35:43])
	binary.LittleEndian.PutUint64(out[35:43], uint64(int64(ds)+int64(delta)))
	if io_ := binary.LittleEndian.Uint64(out[43:51]); io_ != 0 {
		binary.LittleEndian.PutUint64(out[43:51], uint64(int64(io_)+int64(delta)))
	}
}

// c09Mutants enumerates the mutants of a class for a seed.
func c09Mutants(s *c09Seed, class string, emit func(C09Mut)) {
	switch class {
	case "byte":
		emit(C09Mut{Kind: "none"})
		for p := 0; p < len(s.bytes); p++ {
			for _, v := range c09Vals {
				if v >= 0 && int(s.bytes[p]) == v {
					continue
				}
				emit(C09Mut{Kind: "set", Pos: p, Val: v})
			}
			emit(C09Mut{Kind: "trunc", Pos: p})
		}
	case "struct":
		// large seeds: the byte alphabet and the truncations at the structural positions only
		emit(C09Mut{Kind: "none"})
		for _, p := range s.struct_ {
			for _, v := range c09Vals {
				if v >= 0 && int(s.bytes[p]) == v {
					continue
				}
				emit(C09Mut{Kind: "set", Pos: p, Val: v})
			}
			emit(C09Mut{Kind: "trunc", Pos: p})
		}
	case "cbor":
		emit(C09Mut{Kind: "none"})
		c09CborMutants(s, false, emit)
	case "cbordeep":
		emit(C09Mut{Kind: "none"})
		c09CborMutants(s, true, emit)
	case "pair":
		for i, p := range s.struct_ {
			for _, q := range s.struct_[i+1:] {
				for _, v := range c09Vals {
					for _, w := range c09Vals {
						emit(C09Mut{Kind: "set2", Pos: p, Val: v, Pos2: q, Val2: w})
					}
				}
			}
		}
	case "fields", "lens":
		// product of boundary values over the fixed-width fields of one group, and each varint alone
		// ("lens": the length varints only)
		var fixed []c09Field
		for _, f := range s.fields {
			if f.width == 0 {
				for _, v := range f.values {
					emit(C09Mut{Kind: "field", Pos: f.pos, OldLen: f.varlen, Hex: fmt.Sprintf("%x", refcar.PutUvarint(v)), Field: f.name, FV: v})
					if s.base > 0 {
						// the same with DataSize/IndexOffset of the CARv2 header following the new width
						emit(C09Mut{Kind: "field", Pos: f.pos, OldLen: f.varlen, Hex: fmt.Sprintf("%x", refcar.PutUvarint(v)), Field: f.name, FV: v, Repair: true})
					}
					// a non-minimal encoding of the same value (one redundant continuation byte)
					if v <= 4097 || v == 1<<32 {
						nm := refcar.PutUvarint(v)
						nm[len(nm)-1] |= 0x80
						nm = append(nm, 0x00)
						emit(C09Mut{Kind: "field", Pos: f.pos, OldLen: f.varlen, Hex: fmt.Sprintf("%x", nm), Note: "non-minimal"})
					}
				}
				// over-long encodings: 10 and 11 bytes
				emit(C09Mut{Kind: "field", Pos: f.pos, OldLen: f.varlen, Hex: fmt.Sprintf("%x", append(bytes.Repeat([]byte{0x80}, 9), 0x01)), Note: "2^63"})
				emit(C09Mut{Kind: "field", Pos: f.pos, OldLen: f.varlen, Hex: fmt.Sprintf("%x", append(bytes.Repeat([]byte{0xff}, 10), 0x01)), Note: "11 bytes"})
				emit(C09Mut{Kind: "field", Pos: f.pos, OldLen: f.varlen, Hex: fmt.Sprintf("%x", bytes.Repeat([]byte{0x80}, 12)), Note: "unterminated"})
				continue
			}
			fixed = append(fixed, f)
		}
		if class == "lens" {
			return
		}
		groups := map[string][]c09Field{}
		var order []string
		for _, f := range fixed {
			g := strings.SplitN(f.name, ".", 2)[0]
			if _, ok := groups[g]; !ok {
				order = append(order, g)
			}
			groups[g] = append(groups[g], f)
		}
		for _, g := range order {
			fs := groups[g]
			// full product for up to 3 fields; for more, product over each consecutive triple
			for start := 0; start+1 <= len(fs); start += 2 {
				end := start + 3
				if end > len(fs) {
					end = len(fs)
				}
				tri := fs[start:end]
				var rec func(i int, cur []byte)
				first := tri[0].pos
				span := tri[len(tri)-1].pos + tri[len(tri)-1].width - first
				var recf func(i int, buf []byte)
				recf = func(i int, buf []byte) {
					if i == len(tri) {
						emit(C09Mut{Kind: "field", Pos: first, OldLen: span, Hex: fmt.Sprintf("%x", buf)})
						return
					}
					f := tri[i]
					for _, v := range f.values {
						b := append([]byte{}, buf...)
						off := f.pos - first
						if f.width == 4 {
							binary.LittleEndian.PutUint32(b[off:], uint32(v))
						} else {
							binary.LittleEndian.PutUint64(b[off:], v)
						}
						recf(i+1, b)
					}
				}
				_ = rec
				recf(0, append([]byte{}, s.bytes[first:first+span]...))
				if end == len(fs) {
					break
				}
			}
		}
	}
}

// ---------------------------------------------------------------- entry points

type c09Env struct {
	dir    string
	steps  int64
	sample []metrics.Sample
	// per-operation accounting: an entry point that makes several API calls on one object runs
	// each through op(), so that allocation is bounded per call and errors are kept per call
	errs      map[string]error
	opSum     uint64
	opMax     uint64
	opMaxName string
	iters     int64 // callback / loop iterations of source-less entry points (CPU-only loops)
	// hook, when set, is called with a store right after it was opened (limits class)
	hook   func(ra drv.RA)
	hooked bool
}

func (env *c09Env) op(name string, f func() error) error {
	var before uint64
	if env.sample != nil {
		before = allocBytes(env.sample)
	}
	err := f()
	if env.sample != nil {
		d := allocBytes(env.sample) - before
		env.opSum += d
		if d > env.opMax {
			env.opMax, env.opMaxName = d, name
		}
	}
	if env.errs == nil {
		env.errs = map[string]error{}
	}
	env.errs[name] = err
	return err
}

// opQuiet is op without keeping the error (for loops of many small calls).
func (env *c09Env) opQuiet(name string, f func() error) error {
	before := uint64(0)
	if env.sample != nil {
		before = allocBytes(env.sample)
	}
	err := f()
	if env.sample != nil {
		d := allocBytes(env.sample) - before
		env.opSum += d
		if d > env.opMax {
			env.opMax, env.opMaxName = d, name
		}
	}
	return err
}

type stepReader struct {
	r   *bytes.Reader
	env *c09Env
}

func (s *stepReader) Read(p []byte) (int, error) { s.env.steps++; return s.r.Read(p) }
func (s *stepReader) ReadAt(p []byte, o int64) (int, error) {
	s.env.steps++
	return s.r.ReadAt(p, o)
}
func (s *stepReader) Seek(o int64, w int) (int64, error) { s.env.steps++; return s.r.Seek(o, w) }

type stepStream struct {
	r   *bytes.Reader
	env *c09Env
}

func (s *stepStream) Read(p []byte) (int, error) { s.env.steps++; return s.r.Read(p) }

type c09Entry struct {
	name  string
	index bool   // takes a serialized index rather than an archive
	v1    bool   // reads CARv1 only: run on CARv1 seeds
	v2    bool   // CARv2 only
	buf   string // "header", "both", "root" (the root module's global), "default" (takes no options) or "" (buffers nothing)
	// inner: on a CARv2 it buffers the header of the inner CARv1 (else only the pragma)
	inner bool
	// where an over-limit header / section 0 must be reported with the too-large error:
	// "ret" = the returned (first) error; "store" = the error of opening, or else of Keys and Roots;
	// "get" = the error of Get(a) if it was attempted; "" = no requirement
	hdr, sect string
	// okErr: an error this entry point returns on a valid archive by design
	okErr  func(err error, seed *c09Seed) bool
	resume bool // opens an existing file for writing (resume path)
	// sectNoBuf: the entry point passes over sections WITHOUT buffering them ("all": every section - SkipNext,
	// Inspect; "some": the odd ones - alternate). The statement demands the too-large error only of an entry
	// point that buffers; a missing report there is recorded as a beyond-statement outcome, not a violation.
	sectNoBuf string
	run       func(in []byte, o drv.Opts, env *c09Env) error
}

var c09Queries = []string{"a", "b", "i", "s"}

var errC09NoTerm = errors.New("c09: iteration does not terminate")

// c09DrainBR iterates to the end; after the first error it keeps calling a few more times (an
// object must stay total after it has failed). Returns the first error.
func c09DrainBR(br *carv2.BlockReader, mode int, env *c09Env) error {
	step := func(i int) error {
		var err error
		if mode == 1 || (mode == 2 && i%2 == 1) {
			_, err = br.SkipNext()
		} else {
			_, err = br.Next()
		}
		return err
	}
	var first error
	for i := 0; ; i++ {
		err := step(i)
		if err != nil {
			if err != io.EOF {
				first = err
			}
			for k := 0; k < 3; k++ {
				k := k
				env.op(fmt.Sprintf("after-error-%d", k), func() error { return step(i + 1 + k) })
			}
			return first
		}
		if i > 1<<20 {
			return errC09NoTerm
		}
	}
}

func c09WriteTmp(env *c09Env, in []byte) string {
	p := filepath.Join(env.dir, "c09-in.car")
	if err := os.WriteFile(p, in, 0o644); err != nil {
		panic(err)
	}
	return p
}

// c09QueryRA runs every query of a read-only store, each as its own operation; returns the first error.
func c09QueryRA(env *c09Env, ra drv.RA) error {
	if env.hook != nil {
		env.hooked = true
		env.hook(ra)
	}
	var first error
	note := func(err error, nf bool) {
		if err != nil && first == nil && !(nf && isNotFound(err)) {
			first = err
		}
	}
	for _, q := range c09Queries {
		b := kit.B(q)
		note(env.op("Has:"+q, func() error { _, err := ra.Has(b.Cid); return err }), false)
		note(env.op("Get:"+q, func() error { _, err := ra.Get(b.Cid); return err }), true)
		note(env.op("Size:"+q, func() error { _, err := ra.Size(b.Cid); return err }), true)
	}
	if err := env.op("Keys", func() error { _, err := ra.Keys(); return err }); err != drv.ErrNoListing {
		note(err, false)
	}
	note(env.op("Roots", func() error { _, err := ra.Roots(); return err }), false)
	// closing must not block (a read lock leaked on an error path would), and a closed store stays total
	env.op("Close", func() error { ra.Close(); return nil })
	env.op("Has-after-close", func() error { _, err := ra.Has(kit.B("a").Cid); return err })
	return first
}

// c09ReaderAll exercises a carv2.Reader; it goes on after a failure. Returns the first error.
func c09ReaderAll(rd *carv2.Reader, n int, env *c09Env) error {
	var first error
	note := func(err error) {
		if err != nil && first == nil {
			first = err
		}
	}
	note(env.op("Roots", func() error { _, err := rd.Roots(); return err }))
	note(env.op("DataReader", func() error {
		dr, err := rd.DataReader()
		if err != nil {
			return err
		}
		if _, err := io.CopyN(io.Discard, dr, int64(n)+1); err != nil && err != io.EOF {
			return err
		}
		return nil
	}))
	note(env.op("IndexReader", func() error {
		ir, err := rd.IndexReader()
		if err != nil {
			return err
		}
		if ir != nil {
			if _, err := io.CopyN(io.Discard, ir, int64(n)+1); err != nil && err != io.EOF {
				return err
			}
		}
		return nil
	}))
	if first != nil {
		// a failed reader is inspected all the same
		env.op("Inspect-after-error", func() error { _, err := rd.Inspect(false); return err })
		env.op("Roots-again", func() error { _, err := rd.Roots(); return err })
	}
	env.op("Close", func() error { return rd.Close() })
	return first
}

// c09NoBufOfMode: SkipNext does not buffer sections; mode 2 reads the even ones (section 0) with Next.
func c09NoBufOfMode(mode int) string {
	switch mode {
	case 1:
		return "all"
	case 2:
		return "some"
	}
	return ""
}

func c09IsAlreadyV1(err error, sd *c09Seed) bool {
	return sd.base == 0 && errors.Is(err, carv2.ErrAlreadyV1)
}

func c09Entries() []c09Entry {
	ctx := context.Background()
	mkBR := func(name string, stream bool, mode int) c09Entry {
		return c09Entry{name: name, buf: "both", inner: true, hdr: "ret", sect: "ret", sectNoBuf: c09NoBufOfMode(mode), run: func(in []byte, o drv.Opts, env *c09Env) error {
			var src io.Reader = &stepReader{bytes.NewReader(in), env}
			if stream {
				src = &stepStream{bytes.NewReader(in), env}
			}
			br, err := carv2.NewBlockReader(src, o.List()...)
			if err != nil {
				return err
			}
			return c09DrainBR(br, mode, env)
		}}
	}
	return []c09Entry{
		{name: "Reader", buf: "header", inner: true, hdr: "ret", run: func(in []byte, o drv.Opts, env *c09Env) error {
			rd, err := carv2.NewReader(&stepReader{bytes.NewReader(in), env}, o.List()...)
			if err != nil {
				return err
			}
			return c09ReaderAll(rd, len(in), env)
		}},
		{name: "Inspect(true)", buf: "both", inner: true, hdr: "ret", sect: "ret", sectNoBuf: "all", run: func(in []byte, o drv.Opts, env *c09Env) error {
			rd, err := carv2.NewReader(&stepReader{bytes.NewReader(in), env}, o.List()...)
			if err != nil {
				return err
			}
			_, err = rd.Inspect(true)
			return err
		}},
		{name: "Inspect(false)", buf: "both", inner: true, hdr: "ret", sect: "ret", sectNoBuf: "all", run: func(in []byte, o drv.Opts, env *c09Env) error {
			rd, err := carv2.NewReader(&stepReader{bytes.NewReader(in), env}, o.List()...)
			if err != nil {
				return err
			}
			_, err = rd.Inspect(false)
			return err
		}},
		mkBR("BlockReader.Next", false, 0), mkBR("BlockReader.Next/stream", true, 0),
		mkBR("BlockReader.SkipNext", false, 1), mkBR("BlockReader.SkipNext/stream", true, 1),
		mkBR("BlockReader.alternate", false, 2), mkBR("BlockReader.alternate/stream", true, 2),
		{name: "GenerateIndex", buf: "header", inner: true, hdr: "ret", run: func(in []byte, o drv.Opts, env *c09Env) error {
			_, err := carv2.GenerateIndex(&stepReader{bytes.NewReader(in), env}, o.List()...)
			return err
		}},
		{name: "GenerateIndex/stream", buf: "header", inner: true, hdr: "ret", run: func(in []byte, o drv.Opts, env *c09Env) error {
			_, err := carv2.GenerateIndex(&stepStream{bytes.NewReader(in), env}, o.List()...)
			return err
		}},
		{name: "LoadIndex(insertion)", buf: "header", inner: true, hdr: "ret", run: func(in []byte, o drv.Opts, env *c09Env) error {
			return carv2.LoadIndex(index.NewInsertionIndex(), &stepReader{bytes.NewReader(in), env}, o.List()...)
		}},
		{name: "ReadOrGenerateIndex", buf: "header", hdr: "ret", run: func(in []byte, o drv.Opts, env *c09Env) error {
			_, err := carv2.ReadOrGenerateIndex(&stepReader{bytes.NewReader(in), env}, o.List()...)
			return err
		}},
		{name: "index.ReadFrom", index: true, run: func(in []byte, o drv.Opts, env *c09Env) error {
			idx, err := index.ReadFrom(&stepStream{bytes.NewReader(in), env})
			if err != nil {
				return err
			}
			return c09IndexQueries(idx, env)
		}},
		{name: "NewReadOnly", buf: "header", inner: true, hdr: "store", sect: "get", run: func(in []byte, o drv.Opts, env *c09Env) error {
			var bs *blockstore.ReadOnly
			if err := env.op("open", func() (err error) {
				bs, err = blockstore.NewReadOnly(&stepReader{bytes.NewReader(in), env}, nil, o.List()...)
				return err
			}); err != nil {
				return err
			}
			return c09QueryRA(env, drv.WrapBS(bs))
		}},
		{name: "OpenReadable", buf: "header", inner: true, hdr: "ret", run: func(in []byte, o drv.Opts, env *c09Env) error {
			var st storage.ReadableCar
			if err := env.op("open", func() (err error) {
				st, err = storage.OpenReadable(&stepReader{bytes.NewReader(in), env}, o.List()...)
				return err
			}); err != nil {
				return err
			}
			return c09QueryRA(env, drv.WrapST(st))
		}},
		{name: "ReplaceRootsInFile", buf: "header", inner: true, hdr: "ret", okErr: func(err error, sd *c09Seed) bool {
			return sd.name == "v1-r100" && strings.Contains(err.Error(), "must match replacement header size") // 100 roots replaced by one
		}, run: func(in []byte, o drv.Opts, env *c09Env) error {
			p := c09WriteTmp(env, in)
			defer os.Remove(p)
			return carv2.ReplaceRootsInFile(p, []cid.Cid{kit.B("b").Cid}, o.List()...)
		}},
		{name: "ExtractV1File", buf: "header", hdr: "ret", okErr: c09IsAlreadyV1, run: func(in []byte, o drv.Opts, env *c09Env) error {
			p := c09WriteTmp(env, in)
			defer os.Remove(p)
			dst := filepath.Join(env.dir, "c09-out.car")
			defer os.Remove(dst)
			return carv2.ExtractV1File(p, dst, o.List()...)
		}},
		{name: "WrapV1", buf: "header", hdr: "ret", run: func(in []byte, o drv.Opts, env *c09Env) error {
			return carv2.WrapV1(&stepReader{bytes.NewReader(in), env}, io.Discard, o.List()...)
		}},
		{name: "ReadVersion", buf: "header", hdr: "ret", run: func(in []byte, o drv.Opts, env *c09Env) error {
			_, err := carv2.ReadVersion(&stepStream{bytes.NewReader(in), env}, o.List()...)
			return err
		}},
		{name: "root.CarReader", v1: true, buf: "root", hdr: "ret", sect: "ret", run: func(in []byte, o drv.Opts, env *c09Env) error {
			var cr *carv1.CarReader
			var err error
			if o.StoreID { // option variant: the only option of the root-module reader
				cr, err = carv1.NewCarReaderWithOptions(&stepStream{bytes.NewReader(in), env}, carv1.WithErrorOnEmptyRoots(true))
			} else {
				cr, err = carv1.NewCarReaderWithOptions(&stepStream{bytes.NewReader(in), env})
			}
			if err != nil {
				return err
			}
			for i := 0; ; i++ {
				if _, err := cr.Next(); err != nil {
					for k := 0; k < 2; k++ {
						env.op(fmt.Sprintf("after-error-%d", k), func() error { _, err := cr.Next(); return err })
					}
					if err == io.EOF {
						return nil
					}
					return err
				}
				if i > 1<<20 {
					return errC09NoTerm
				}
			}
		}},
		{name: "root.LoadCar", v1: true, buf: "root", hdr: "ret", sect: "ret", run: func(in []byte, o drv.Opts, env *c09Env) error {
			_, err := carv1.LoadCar(ctx, &drvNullStore{}, &stepStream{bytes.NewReader(in), env})
			return err
		}},
		{name: "root.ReadHeader", v1: true, buf: "root", hdr: "ret", run: func(in []byte, o drv.Opts, env *c09Env) error {
			_, err := carv1.ReadHeader(bufio.NewReader(&stepStream{bytes.NewReader(in), env}))
			return err
		}},
		{name: "internal.CarReader", v1: true, buf: "both", hdr: "ret", sect: "ret", run: func(in []byte, o drv.Opts, env *c09Env) error {
			mh, ms := o.MaxHeader, o.MaxSect
			if mh == 0 {
				mh = carv2.DefaultMaxAllowedHeaderSize
			}
			if ms == 0 {
				ms = carv2.DefaultMaxAllowedSectionSize
			}
			cr, err := verifbridge.NewCarV1ReaderWithoutDefaults(&stepStream{bytes.NewReader(in), env}, o.ZeroEOF, mh, ms)
			if err != nil {
				return err
			}
			for i := 0; ; i++ {
				if _, err := cr.Next(); err != nil {
					if err == io.EOF {
						return nil
					}
					return err
				}
				if i > 1<<20 {
					return errC09NoTerm
				}
			}
		}},
	}
}

// c09EntriesFor returns the entry points of a set ("" core, "ext" extended).
func c09EntriesFor(set string) []c09Entry {
	if set == "ext" {
		return c09ExtEntries()
	}
	return c09Entries()
}

type drvNullStore struct{}

func (drvNullStore) Put(context.Context, blocks.Block) error { return nil }

// ---------------------------------------------------------------- child process

type c09Viol struct {
	Sig   string `json:"sig"`
	Msg   string `json:"msg"`
	Mut   C09Mut `json:"mut"`
	Entry string `json:"entry"`
}

type c09Result struct {
	Runs       int       `json:"runs"`
	Mutants    int       `json:"mutants"`
	Accepted   int       `json:"accepted"`
	Rejected   int       `json:"rejected"`
	MaxAlloc   uint64    `json:"max_alloc"`
	MaxSteps   int64     `json:"max_steps"`
	Expect     int       `json:"expect"` // evaluations of the too-large / within-limit expectation
	Violations []c09Viol `json:"violations"`
	// Beyond: observations the statement does not carry (recorded as beyond-statement outcomes)
	Beyond map[string]int `json:"beyond,omitempty"`
}

func allocBytes(s []metrics.Sample) uint64 {
	metrics.Read(s)
	return s[0].Value.Uint64()
}

// c09Limits returns the configured header / section maxima of a limit setting.
func c09Limits(limit string) (mh, ms uint64) {
	switch limit {
	case "small":
		return 4096, 2048
	case "swap":
		return 2048, 4096
	}
	return 32 << 20, 8 << 20
}

func c09Opts(cs C09Case, seedLen int) drv.Opts {
	o := drv.Opts{ZeroEOF: cs.Zero}
	if cs.Limit == "small" || cs.Limit == "swap" {
		o.MaxHeader, o.MaxSect = c09Limits(cs.Limit)
	}
	switch cs.Opt {
	case "sw":
		o.StoreID, o.Whole = true, true
	case "tm":
		o.Trusted, o.MaxCid = true, 36
	case "so":
		o.Codec = "sorted"
	}
	return o
}

// c09TooLarge holds the too-large errors of the go-car under test. No error TEXT is written down here: the
// errors are obtained by probing this build with a 100-byte length prefix under a limit of 1 (through the
// existing bridge; the sentinels util.ErrHeaderTooLarge / util.ErrSectionTooLarge are internal to go-car).
type c09TooLarge struct{ hdr, sect, root error }

func c09Innermost(err error) error {
	for err != nil {
		u := errors.Unwrap(err)
		if u == nil {
			break
		}
		err = u
	}
	return err
}

var c09Sentinels = sync.OnceValue(func() c09TooLarge {
	var t c09TooLarge
	_, err := verifbridge.ReadHeaderV1(bytes.NewReader([]byte{100, 0xa0}), 1)
	t.hdr = c09Innermost(err)
	if cr, err := verifbridge.NewCarV1ReaderWithoutDefaults(bytes.NewReader(append(append([]byte{}, c09TinyV1()...), 100, 0x01)), false, 1<<20, 1); err == nil {
		_, err = cr.Next()
		t.sect = c09Innermost(err)
	}
	// the root module has no sentinel (and one process-global limit)
	old := v1util.MaxAllowedSectionSize
	v1util.MaxAllowedSectionSize = 1
	_, t.root = v1util.LdRead(bufio.NewReader(bytes.NewReader([]byte{100, 0x01})))
	v1util.MaxAllowedSectionSize = old
	return t
})

// c09Is: err is (or wraps, or quotes) the reference error of this build.
func c09Is(err, ref error) bool {
	if err == nil || ref == nil {
		return false
	}
	return errors.Is(err, ref) || strings.Contains(err.Error(), ref.Error())
}

var c09Digits = regexp.MustCompile(`[0-9]+`)

// c09IsRoot: err is the root module's too-large error (a fresh value per call, possibly carrying the
// sizes: compared with the numbers masked).
func c09IsRoot(err error) bool {
	ref := c09Sentinels().root
	if err == nil || ref == nil {
		return false
	}
	return c09Is(err, ref) || strings.Contains(c09Digits.ReplaceAllString(err.Error(), "#"), c09Digits.ReplaceAllString(ref.Error(), "#"))
}

// c09Prop is the part of the allocation bound that is proportional to the input.
func c09Prop(n int) uint64 {
	if n <= 1024 {
		return 1024 * uint64(n)
	}
	return 1024*1024 + 64*uint64(n-1024)
}

// c09MaxCidClaim scans every offset of in for a CID whose multihash length varint claims more than
// the input holds, and returns the largest claim (capped at 32 MiB, go-cid's own cap): this is what
// go-cid's CidFromReader pre-allocates (known finding c09:alloc:cid-digest-prealloc).
func c09MaxCidClaim(in []byte) uint64 {
	var max uint64
	for p := 0; p < len(in); p++ {
		q := p
		ok := true
		var v uint64
		for k := 0; k < 4 && ok; k++ { // version, codec, multihash code, multihash length
			x, n, err := refcar.Uvarint(in[q:])
			if err != nil || n <= 0 {
				// go-varint rejects non-minimal encodings that refcar may reject too; a lenient parse is the safe side
				x, n = binary.Uvarint(in[q:])
				if n <= 0 {
					ok = false
					break
				}
			}
			q += n
			v = x
			if k == 0 && x == 0x12 && q < len(in) {
				// CIDv0: 0x12 then the length byte
				y, m := binary.Uvarint(in[q:])
				if m > 0 && y > max {
					max = y
				}
			}
		}
		if ok && v > max {
			max = v
		}
	}
	if max > 32<<20 {
		max = 32 << 20
	}
	return max
}

// C09ChildMain runs every mutant of the case against every entry point, in this process.
func C09ChildMain(arg, progressPath string) int {
	var cs C09Case
	if err := json.Unmarshal([]byte(arg), &cs); err != nil {
		fmt.Fprintln(os.Stderr, err)
		return 2
	}
	// address-space limit: a length-driven allocation must fail loudly, not eat the machine
	lim := uint64(6 << 30)
	syscall.Setrlimit(syscall.RLIMIT_AS, &syscall.Rlimit{Cur: lim, Max: lim})
	debug.SetGCPercent(100)
	seed := c09FindSeed(cs.Seed)
	if seed == nil {
		fmt.Fprintln(os.Stderr, "unknown seed")
		return 2
	}
	dir, err := os.MkdirTemp("/dev/shm", "c09c")
	if err != nil {
		dir, _ = os.MkdirTemp("", "c09c")
	}
	defer os.RemoveAll(dir)
	prog, _ := os.OpenFile(progressPath, os.O_CREATE|os.O_WRONLY|os.O_TRUNC, 0o644)
	res := &c09Result{Beyond: map[string]int{}}
	tl := c09Sentinels() // before the root module's global is touched
	entries := c09EntriesFor(cs.Set)
	o := c09Opts(cs, len(seed.bytes))
	mh, ms := c09Limits(cs.Limit)
	rootLim := uint64(32 << 20)
	if cs.Limit != "default" {
		// the root module has one global for header and section
		rootLim = mh
		v1util.MaxAllowedSectionSize = uint(mh)
	}
	sample := []metrics.Sample{{Name: "/gc/heap/allocs:bytes"}}
	seen := map[string]bool{}
	ordinal := -1
	isV2 := bytes.HasPrefix(seed.bytes, refcar.Pragma)
	// under the default limits the classes that plant length fields near the limits are judged
	// per operation only (several calls on one object may each buffer up to the limit)
	totalCheck := !(cs.Limit == "default" && (cs.Class == "fields" || cs.Class == "lens" || cs.Class == "cbor" || cs.Class == "cbordeep" || cs.Class == "struct"))
	runOne := func(m C09Mut) {
		ordinal++
		if ordinal < cs.From || (cs.Shards > 0 && cs.Mut == nil && ordinal%cs.Shards != cs.Shard) {
			return
		}
		in := c09Apply(seed, m)
		res.Mutants++
		// what a length field planted by this mutant demands
		wantHdr, wantSect, hdrWithin := false, false, false
		judged := !isV2 || m.Repair
		if m.Kind == "field" && m.Field != "" && judged {
			switch m.Field {
			case "v1.HeaderLen":
				wantHdr = m.FV > mh
				hdrWithin = m.FV <= mh
			case "section0.Len":
				wantSect = m.FV > ms
			}
		}
		region := ""
		if m.Kind == "set" || m.Kind == "set2" || m.Kind == "trunc" || m.Kind == "field" {
			region = seed.region(m.Pos)
			if m.Kind == "set2" && seed.region(m.Pos2) == "section-cid" {
				region = "section-cid"
			}
		} else if m.Kind == "hdr" {
			region = "v1-header"
		} else if m.Kind == "sec" {
			region = "section-cid"
		}
		claim := uint64(1 << 63)
		for _, e := range entries {
			if e.index != seed.isIdx || (e.v1 && isV2) || (e.v2 && !isV2) {
				continue
			}
			if cs.Entry != "" && e.name != cs.Entry {
				continue
			}
			// allocation bounds. Per operation (one API call, or one object used up to its first
			// error): at most ONE buffer that the input does not back can be allocated, because the
			// read into it fails and ends the operation; so max(header max, section max), and only the
			// section max when the mutant left the header alone. For the whole entry point (several
			// calls): the historical sum bound.
			prop := c09Prop(len(in)) + (1 << 20)
			emh, ems := mh, ms
			if e.buf == "root" {
				emh, ems = rootLim, rootLim
			} else if e.buf == "default" {
				emh, ems = c09Limits("default")
			}
			opBound := emh
			if ems > opBound {
				opBound = ems
			}
			if m.Kind == "field" && m.Field == "section0.Len" && judged {
				opBound = ems
			}
			opBound += prop
			bound := emh + ems + prop
			if e.buf == "root" {
				bound = 2*rootLim + prop
			}
			if e.buf == "" || e.index {
				bound, opBound = prop, prop
			}
			// announce before running: a fatal error is attributed to this (mutant, entry)
			if prog != nil {
				mb, _ := json.Marshal(map[string]any{"mut": m, "entry": e.name, "ordinal": ordinal})
				prog.Truncate(0)
				prog.WriteAt(mb, 0)
			}
			env := &c09Env{dir: dir, sample: sample}
			before := allocBytes(sample)
			var perr any
			var stack string
			var rerr error
			done := make(chan struct{})
			go func() {
				defer close(done)
				defer func() {
					if r := recover(); r != nil {
						perr = r
						stack = string(debug.Stack())
					}
				}()
				rerr = e.run(in, o, env)
			}()
			select {
			case <-done:
			case <-time.After(30 * time.Second):
				fmt.Printf("{\"hang\":true}\n")
				os.Exit(3)
			}
			delta := allocBytes(sample) - before
			if delta > 64<<20 {
				debug.FreeOSMemory()
			}
			res.Runs++
			if rerr == nil {
				res.Accepted++
			} else {
				res.Rejected++
			}
			if delta > res.MaxAlloc {
				res.MaxAlloc = delta
			}
			if env.steps > res.MaxSteps {
				res.MaxSteps = env.steps
			}
			add := func(sig, msg string) {
				if !seen[sig] {
					seen[sig] = true
					res.Violations = append(res.Violations, c09Viol{Sig: sig, Msg: msg, Mut: m, Entry: e.name})
				}
			}
			if perr != nil {
				add("c09:panic:"+e.name+":"+c09PanicFrame(stack), fmt.Sprintf("%s panics: %v\n%s", e.name, perr, clipS(stack, 1500)))
			}
			nOps := uint64(len(env.errs))
			judge := func(d, bnd uint64, what string, parses uint64) {
				if d <= bnd {
					return
				}
				reg := region
				if reg == "" {
					reg = "input"
				}
				// Findings that live in a dependency or in one shared function get ONE signature each, not one
				// per entry point (every signature costs five confirming child runs); the replay names the entry.
				sig := ""
				switch {
				case e.name == "root.ReadCid":
					// util.ReadCid parses with go-multihash's reader, which allocates the claimed digest
					// length (up to 2^31-1) before reading it
					sig = "c09:alloc:readcid-digest-prealloc:root.ReadCid"
				case e.resume && c09FirstLen(in) <= 32<<20 && d <= bnd+c09FirstLen(in):
					// the resume path reads the first header of the file (pragma / CARv1 header) with
					// the DEFAULT header limit (store.ResumableVersion calls ReadVersion without options)
					sig = "c09:alloc:resume-first-header-default-limit:" + e.name
				case m.Claim > 0 && m.Claim <= 32<<20 && d <= bnd+parses*(2*m.Claim+(1<<20)):
					// a CBOR string/bytes head inside a header of legal size: the CBOR decoder (refmt)
					// allocates the claimed length (capped at 32 MiB) before reading
					sig = "c09:alloc:cbor-string-prealloc:v2"
					if e.buf == "root" {
						sig = "c09:alloc:cbor-string-prealloc:root"
					}
				case region == "section-cid":
					// a multihash length varint inside a CID: go-cid's CidFromReader pre-allocates the
					// claimed digest length (capped at 32 MiB) before reading. Only as much as some CID
					// position of THIS input claims is attributed to that, once per parse.
					if claim == 1<<63 {
						claim = c09MaxCidClaim(in)
					}
					if d <= bnd+parses*(claim+(1<<20)) {
						sig = "c09:alloc:cid-digest-prealloc:other"
						if e.name == "NewReadOnly" || e.name == "OpenReadable" {
							sig = "c09:alloc:cid-digest-prealloc:" + e.name // the two signatures on record
						}
					}
				}
				if sig == "" {
					sig = "c09:alloc:" + reg + ":" + e.name
				} else if cs.Mut == nil && d <= bnd+(256<<10) {
					// Hysteresis for the findings on record: an instance that exceeds the bound by less than
					// the measurement noise is not made the representative of its (shared) signature - the
					// re-executions that confirm a representative judge strictly (d > bound) and must not flip.
					return
				}
				add(sig, fmt.Sprintf("%s (%s) allocated %d bytes on a %d-byte input (bound %d; header max %d, section max %d, + proportional part + 1 MiB)", e.name, what, d, len(in), bnd, emh, ems))
			}
			main := delta - env.opSum
			if env.opSum > delta {
				main = 0
			}
			judge(main, opBound, "outside its per-call operations", 1)
			judge(env.opMax, opBound, "operation "+env.opMaxName, 1)
			if totalCheck {
				judge(delta, bound, "in total", nOps+1)
			}
			stepBound := int64(64 * (len(in) + 64))
			if env.steps > stepBound {
				add("c09:steps:"+e.name, fmt.Sprintf("%s issued %d reads/seeks on a %d-byte input (budget %d)", e.name, env.steps, len(in), stepBound))
			}
			if env.iters > stepBound {
				add("c09:steps:"+e.name, fmt.Sprintf("%s ran %d loop iterations on a %d-byte input (budget %d)", e.name, env.iters, len(in), stepBound))
			}
			if rerr != nil && strings.Contains(rerr.Error(), errC09NoTerm.Error()) {
				add("c09:nonterminating:"+e.name, fmt.Sprintf("%s keeps returning blocks", e.name))
			}
			// the unmutated seed is a valid archive / index: it is accepted
			if m.Kind == "none" && rerr != nil && !(e.okErr != nil && e.okErr(rerr, seed)) && cs.Opt == "" && c09SeedFits(seed, e, emh, ems) {
				add("c09:seed-rejected:"+e.name, fmt.Sprintf("%s fails on the valid seed %s: %v", e.name, seed.name, rerr))
			}
			// a planted over-limit length is rejected with the too-large error; one at the limit is not
			if (wantHdr || wantSect || hdrWithin) && (!isV2 || e.inner) && m.FV < 1<<63 && (!wantSect || uint64(seed.hdrLen-seed.hdrVar) <= emh) {
				okHdr := func(g error) bool { return c09Is(g, tl.hdr) }
				okSect := func(g error) bool { return c09Is(g, tl.sect) }
				hs, ss := fmt.Sprint(tl.hdr), fmt.Sprint(tl.sect)
				if e.buf == "root" {
					okHdr, okSect = c09IsRoot, c09IsRoot
					hs, ss = fmt.Sprint(tl.root), fmt.Sprint(tl.root)
				}
				var got []error
				switch {
				case (wantHdr || hdrWithin) && e.hdr == "ret":
					got = []error{rerr}
				case (wantHdr || hdrWithin) && e.hdr == "store":
					if oe, ok := env.errs["open"]; ok && oe != nil {
						got = []error{oe}
					} else if ok {
						// Roots returns the header's content, so it buffers it; a listing need not
						got = []error{env.errs["Roots"]}
						if ke, tried := env.errs["Keys"]; tried && wantHdr && m.FV > emh && !okHdr(ke) {
							res.Beyond["listing-without-header-limit:"+e.name]++
						}
					}
				case wantSect && e.sect == "ret":
					got = []error{rerr}
				case wantSect && e.sect == "get":
					if ge, ok := env.errs["Get:a"]; ok {
						got = []error{ge}
					}
				}
				lim := emh
				if wantSect {
					lim = ems
				}
				for _, g := range got {
					res.Expect++
					switch {
					case wantHdr && m.FV > emh && !okHdr(g):
						if okSect(g) {
							// the statement says "the too-large error", not which of go-car's two
							res.Beyond["too-large-kind:header-reported-as-section:"+e.name]++
							break
						}
						add("c09:too-large-not-reported:header:"+e.name, fmt.Sprintf("%s: header length prefix %d with MaxAllowedHeaderSize %d returned %v, want %q", e.name, m.FV, lim, g, hs))
					case wantSect && m.FV > ems && !okSect(g):
						if okHdr(g) {
							res.Beyond["too-large-kind:section-reported-as-header:"+e.name]++
							break
						}
						if e.sectNoBuf == "all" {
							res.Beyond["section-limit-without-buffering:"+e.name]++
							break
						}
						add("c09:too-large-not-reported:section:"+e.name, fmt.Sprintf("%s: section length prefix %d with MaxAllowedSectionSize %d returned %v, want %q", e.name, m.FV, lim, g, ss))
					case hdrWithin && m.FV <= emh && e.buf != "root" && hs != ss && okHdr(g):
						add("c09:within-limit-rejected:header:"+e.name, fmt.Sprintf("%s: header length prefix %d with MaxAllowedHeaderSize %d is rejected as too large: %v", e.name, m.FV, lim, g))
					}
				}
			}
			// the root module's single limit, at the real sizes of the seed (process-global: only here, in the child)
			if m.Kind == "none" && e.buf == "root" && cs.Opt == "" && cs.Set == "" {
				c09RootExact(seed, e, o, env, add)
				v1util.MaxAllowedSectionSize = uint(rootLim)
			}
		}
	}
	if cs.Mut != nil {
		runOne(*cs.Mut)
	} else {
		c09Mutants(seed, cs.Class, runOne)
	}
	b, _ := json.Marshal(res)
	fmt.Println(string(b))
	return 0
}

// c09SeedFits: the valid seed is within the limits in force and is what the entry point reads.
func c09SeedFits(seed *c09Seed, e c09Entry, emh, ems uint64) bool {
	if seed.isIdx {
		return seed.iidx == (e.name == "InsertionIndex.Unmarshal")
	}
	if uint64(seed.hdrLen-seed.hdrVar) > emh {
		return false
	}
	for _, s := range seed.pl.Sections {
		if uint64(len(s.Cid)+len(s.Data)) > ems {
			return false
		}
	}
	return true
}

// c09FirstLen is the first length prefix of the input (2^63 if there is none).
func c09FirstLen(in []byte) uint64 {
	v, n := binary.Uvarint(in)
	if n <= 0 {
		return 1 << 63
	}
	return v
}

// c09RootExact: with util.MaxAllowedSectionSize exactly the largest header/section of the valid
// seed the root-module readers accept it; with one less they refuse with the too-large error.
func c09RootExact(seed *c09Seed, e c09Entry, o drv.Opts, env *c09Env, add func(sig, msg string)) {
	big := uint64(seed.hdrLen - seed.hdrVar)
	if e.sect != "" {
		for _, s := range seed.pl.Sections {
			if l := uint64(len(s.Cid) + len(s.Data)); l > big {
				big = l
			}
		}
	}
	v1util.MaxAllowedSectionSize = uint(big)
	if err := e.run(seed.bytes, o, &c09Env{dir: env.dir}); err != nil {
		add("c09:limit-exact-rejected:"+e.name, fmt.Sprintf("%s with util.MaxAllowedSectionSize %d (the largest header/section of seed %s) fails: %v", e.name, big, seed.name, err))
	}
	v1util.MaxAllowedSectionSize = uint(big - 1)
	if err := e.run(seed.bytes, o, &c09Env{dir: env.dir}); !c09IsRoot(err) {
		add("c09:limit-not-enforced:"+e.name, fmt.Sprintf("%s with util.MaxAllowedSectionSize %d on seed %s (largest header/section %d) returned %v, want the too-large error", e.name, big-1, seed.name, big, err))
	}
}

func c09PanicFrame(st string) string {
	for _, l := range strings.Split(st, "\n") {
		l = strings.TrimSpace(l)
		if strings.HasPrefix(l, "github.com/ipld/go-car") && !strings.Contains(l, "verifbridge") {
			if i := strings.LastIndex(l, "("); i > 0 {
				l = l[:i]
			}
			return strings.TrimPrefix(l, "github.com/ipld/go-car/")
		}
	}
	return "unknown"
}

// ---------------------------------------------------------------- coordinator

// c09Child runs one child process; died reports that it did not finish, with the announced position.
func c09Child(cs C09Case, dir string) (res *c09Result, died bool, ordinal int, mut C09Mut, entry, kind, stderrText string) {
	arg, _ := json.Marshal(cs)
	progress := filepath.Join(dir, "c09-progress.json")
	os.Remove(progress)
	self, err := os.Executable() // the very binary that is running (not whatever bin/worker is by now)
	if err != nil {
		self = filepath.Join(kit.VerifDir, "bin", "worker")
	}
	cmd := exec.Command(self, "C09-child", string(arg), progress)
	cmd.Env = append(os.Environ(), "GOMAXPROCS=2", "GOGC=100")
	var stderr bytes.Buffer
	cmd.Stderr = &stderr
	out, err := cmd.Output()
	if err == nil && bytes.Contains(out, []byte("\"runs\"")) {
		var r c09Result
		if json.Unmarshal(bytes.TrimSpace(lastLine(out)), &r) == nil {
			return &r, false, 0, C09Mut{}, "", "", ""
		}
	}
	pb, _ := os.ReadFile(progress)
	var p struct {
		Mut     C09Mut `json:"mut"`
		Entry   string `json:"entry"`
		Ordinal int    `json:"ordinal"`
	}
	json.Unmarshal(pb, &p)
	kind = "fatal"
	se := stderr.String()
	switch {
	case bytes.Contains(out, []byte("\"hang\"")):
		kind = "hang"
	case strings.Contains(se, "out of memory") || strings.Contains(se, "cannot allocate memory"):
		kind = "out-of-memory"
	}
	return nil, true, p.Ordinal, p.Mut, p.Entry, kind, firstLines(se, 12)
}

func runC09(c any, x *kit.Ctx) {
	cs := c.(C09Case)
	if cs.Class == "limits" {
		runC09Limits(cs, x)
		return
	}
	t0 := time.Now()
	total := &c09Result{Beyond: map[string]int{}}
	merge := func(r *c09Result) {
		for k, n := range r.Beyond {
			total.Beyond[k] += n
		}
		total.Runs += r.Runs
		total.Mutants += r.Mutants
		total.Accepted += r.Accepted
		total.Rejected += r.Rejected
		total.Expect += r.Expect
		if r.MaxAlloc > total.MaxAlloc {
			total.MaxAlloc = r.MaxAlloc
		}
		if r.MaxSteps > total.MaxSteps {
			total.MaxSteps = r.MaxSteps
		}
		total.Violations = append(total.Violations, r.Violations...)
	}
	run := cs
	for restarts := 0; ; restarts++ {
		res, died, ord, mut, entry, kind, se := c09Child(run, x.Dir)
		if !died {
			merge(res)
			break
		}
		if cs.Mut != nil {
			// isolated run of one mutant (replay or confirmation): the death IS the observation
			rc := cs
			rc.Entry = entry
			sig := "c09:" + kind + ":" + entry
			if kind != "fatal" {
				// resource exhaustion in all its forms is one class per region and entry point
				sig = "c09:alloc:" + c09DeathRegion(cs.Seed, mut, entry) + ":" + entry
			}
			x.FailCase(rc, sig, "the process died (%s) while %s parsed mutant %+v of seed %s: %s", kind, entry, mut, cs.Seed, clipS(se, 1200))
			return
		}
		// run the announced mutant alone, every entry point in its own child, so that the
		// verdict does not depend on what earlier mutants left in the process
		for _, e := range c09EntriesFor(cs.Set) {
			if e.index != c09FindSeed(cs.Seed).isIdx {
				continue
			}
			iso := cs
			iso.From = 0
			m := mut
			iso.Mut = &m
			iso.Entry = e.name
			r2, died2, _, _, _, kind2, se2 := c09Child(iso, x.Dir)
			if died2 {
				sig := "c09:" + kind2 + ":" + e.name
				if kind2 != "fatal" {
					sig = "c09:alloc:" + c09DeathRegion(cs.Seed, m, e.name) + ":" + e.name
				}
				total.Violations = append(total.Violations, c09Viol{Sig: sig, Msg: fmt.Sprintf("the process died (%s): %s", kind2, clipS(se2, 1200)), Mut: m, Entry: e.name})
				continue
			}
			merge(r2)
		}
		x.Count("child_restarts", 1)
		run.From = ord + 1
		if restarts > 2000 {
			x.Fail("c09:harness:too-many-restarts", "child process died more than 2000 times for %+v", cs)
			return
		}
	}
	res := total
	x.Eval(res.Runs)
	x.Transition(res.Runs)
	x.AddStates(res.Mutants)
	x.Count("mutants", res.Mutants)
	x.Count("accepted_runs", res.Accepted)
	x.Count("rejected_runs", res.Rejected)
	x.Count("too_large_expectations_checked", res.Expect)
	x.Note(fmt.Sprintf("%s/%s/%s/zero=%v/set=%s/opt=%s/%d", cs.Seed, cs.Class, cs.Limit, cs.Zero, cs.Set, cs.Opt, cs.Shard), map[string]any{"mutants": res.Mutants, "runs": res.Runs, "accepted": res.Accepted, "rejected": res.Rejected, "max_alloc_bytes": res.MaxAlloc, "max_reader_steps": res.MaxSteps, "wall_ms_informative": time.Since(t0).Milliseconds()})
	x.Outcome(fmt.Sprintf("%s:%s:%s:%s", cs.Class, cs.Limit, cs.Set, cs.Opt))
	for k := range res.Beyond {
		x.Outcome("beyond-statement:" + k)
	}
	x.Nontrivial(fmt.Sprintf("%s|%s|%s|%v|%s|%s|%d", cs.Seed, cs.Class, cs.Limit, cs.Zero, cs.Set, cs.Opt, cs.Shard))
	seen := map[string]bool{}
	for _, v := range res.Violations {
		if seen[v.Sig] {
			continue
		}
		seen[v.Sig] = true
		rc := cs
		rc.From = 0
		m := v.Mut
		rc.Mut = &m
		rc.Entry = v.Entry
		if os.Getenv("C09_DEBUG") != "" {
			jb, _ := json.Marshal(rc)
			fmt.Fprintf(os.Stderr, "C09_DEBUG %s %s\n", v.Sig, jb)
		}
		x.FailCase(rc, v.Sig, "seed %s mutant %+v: %s", cs.Seed, v.Mut, v.Msg)
	}
}

// c09DeathRegion names the region of a mutant whose parsing exhausted memory.
func c09DeathRegion(seed string, m C09Mut, entry string) string {
	reg := "input"
	switch m.Kind {
	case "hdr":
		reg = "v1-header"
	case "sec":
		reg = "section-cid"
	case "set", "set2", "trunc", "field":
		reg = c09FindSeed(seed).region(m.Pos)
	}
	if entry == "root.ReadCid" {
		reg = "readcid-digest-prealloc"
	}
	return reg
}

func firstLines(s string, n int) string {
	l := strings.Split(s, "\n")
	if len(l) > n {
		l = l[:n]
	}
	return strings.Join(l, "\n")
}

func lastLine(b []byte) []byte {
	b = bytes.TrimSpace(b)
	if i := bytes.LastIndexByte(b, '\n'); i >= 0 {
		return b[i+1:]
	}
	return b
}

// runC09Limits: on the valid seed, an over-limit header/section is rejected with the too-large
// error and an exactly-at-limit one accepted, at every entry point that buffers one (the sizes are
// the seed's own: 1-, 2- and 3-byte length prefixes, a header over 4 KiB).
func runC09Limits(cs C09Case, x *kit.Ctx) {
	seed := c09FindSeed(cs.Seed)
	in := seed.bytes
	pl := seed.pl
	hdrBody := uint64(seed.hdrLen - seed.hdrVar)
	// the pragma of a CARv2 is itself read as a header (10 bytes); the binding header is the larger
	var maxSect uint64
	bigName := ""
	bigIdx := 0 // position of the first largest section
	for i, s := range pl.Sections {
		if l := uint64(len(s.Cid) + len(s.Data)); l > maxSect {
			maxSect, bigIdx = l, i
		}
	}
	tl := c09Sentinels()
	for _, q := range []string{"a", "L128", "L16384", "L5000", "s", "b", "i"} {
		for _, s := range pl.Sections {
			if bytes.Equal(s.Cid, kit.B(q).Raw) && uint64(len(s.Cid)+len(s.Data)) == maxSect && bigName == "" {
				bigName = q
			}
		}
	}
	isV2 := bytes.HasPrefix(in, refcar.Pragma)
	for _, set := range []string{"", "ext"} {
		for _, e := range c09EntriesFor(set) {
			if e.index || e.buf == "" || e.buf == "root" || e.buf == "default" {
				continue
			}
			if !isV2 && e.v2 {
				continue
			}
			if isV2 && (e.v1 || !e.inner) {
				continue // on a CARv2 only some entry points ever buffer the inner header
			}
			env := &c09Env{dir: x.Dir}
			x.Eval(1)
			// exactly at the limit: accepted
			o := drv.Opts{MaxHeader: hdrBody, MaxSect: maxSect}
			if maxSect == 0 {
				o.MaxSect = 1
			}
			errAt := e.run(in, o, env)
			if errAt != nil && (isTooLarge(errAt)) {
				x.Fail("c09:limit-exact-rejected:"+e.name, "%s rejects a header of %d / section of %d bytes with limits exactly %d / %d: %v", e.name, hdrBody, maxSect, o.MaxHeader, o.MaxSect, errAt)
			} else if errAt != nil && !(e.okErr != nil && e.okErr(errAt, seed)) {
				x.Fail("c09:limit-exact-error:"+e.name, "%s fails on the valid seed %s with limits exactly at its header (%d) and largest section (%d): %v", e.name, seed.name, hdrBody, maxSect, errAt)
			}
			// header one over the limit: rejected with the too-large error
			o2 := drv.Opts{MaxHeader: hdrBody - 1, MaxSect: o.MaxSect}
			env2 := &c09Env{dir: x.Dir}
			err2 := e.run(in, o2, env2)
			switch {
			case c09Is(err2, tl.hdr):
			case c09Is(err2, tl.sect):
				// the statement says "the too-large error", not which of go-car's two
				x.Outcome("beyond-statement:too-large-kind:header-reported-as-section:" + e.name)
			default:
				x.Fail("c09:limit-header-not-enforced:"+e.name, "%s with MaxAllowedHeaderSize %d on a %d-byte header returned %v, want the header-too-large error (%v)", e.name, hdrBody-1, hdrBody, err2, tl.hdr)
			}
			if oe, opened := env2.errs["open"]; e.hdr == "store" && opened && oe == nil {
				// opened without touching the inner header. Roots returns the header's content, so it
				// buffers it and must refuse it; a listing can skip the header by its length prefix
				// without buffering it, which the statement allows (recorded, not a violation)
				if !c09Is(env2.errs["Roots"], tl.hdr) && !c09Is(env2.errs["Roots"], tl.sect) {
					x.Fail("c09:limit-header-not-enforced:"+e.name+":Roots", "%s/Roots with MaxAllowedHeaderSize %d on a %d-byte header returned %v, want the header-too-large error (%v)", e.name, hdrBody-1, hdrBody, env2.errs["Roots"], tl.hdr)
				}
				if ke, tried := env2.errs["Keys"]; tried && !c09Is(ke, tl.hdr) {
					x.Outcome("beyond-statement:listing-without-header-limit:" + e.name)
				}
			}
			if e.buf == "both" && maxSect > 1 {
				o3 := drv.Opts{MaxHeader: hdrBody, MaxSect: maxSect - 1}
				err3 := e.run(in, o3, &c09Env{dir: x.Dir})
				// the first section over the limit is the first largest one; in mode "alternate" the
				// sections at odd positions are skipped, not buffered
				noBuf := e.sectNoBuf == "all" || (e.sectNoBuf == "some" && bigIdx%2 == 1)
				switch {
				case c09Is(err3, tl.sect):
				case c09Is(err3, tl.hdr):
					x.Outcome("beyond-statement:too-large-kind:section-reported-as-header:" + e.name)
				case noBuf:
					// an entry point that does not buffer the section need not apply the section limit
					x.Outcome("beyond-statement:section-limit-without-buffering:" + e.name)
				default:
					x.Fail("c09:limit-section-not-enforced:"+e.name, "%s with MaxAllowedSectionSize %d on a %d-byte section returned %v, want the section-too-large error (%v)", e.name, maxSect-1, maxSect, err3, tl.sect)
				}
			}
			// the query path of the block store (FindCid -> ReadNode): Get of the largest block
			if e.sect == "get" && bigName != "" {
				big := kit.B(bigName)
				for _, d := range []uint64{0, 1} {
					o4 := drv.Opts{MaxHeader: hdrBody, MaxSect: maxSect - d}
					env4 := &c09Env{dir: x.Dir}
					var data []byte
					var gerr error
					env4.hook = func(ra drv.RA) { data, gerr = ra.Get(big.Cid) }
					oerr := e.run(in, o4, env4)
					switch {
					case !env4.hooked && d == 1 && c09Is(oerr, tl.sect):
						// refused already when opening (an index generation that honours the section limit)
						x.Outcome("beyond-statement:over-limit-section-refused-at-open:" + e.name)
					case !env4.hooked:
						x.Fail("c09:limit-store-open:"+e.name, "%s with limits %d / %d on the valid seed %s did not open: %v", e.name, o4.MaxHeader, o4.MaxSect, seed.name, oerr)
					case d == 0 && (gerr != nil || !bytes.Equal(data, big.Data)):
						x.Fail("c09:limit-exact-rejected:"+e.name+":Get", "%s: Get of a %d-byte section with MaxAllowedSectionSize %d returned %d bytes, error %v", e.name, maxSect, maxSect, len(data), gerr)
					case d == 1 && !c09Is(gerr, tl.sect):
						x.Fail("c09:limit-section-not-enforced:"+e.name+":Get", "%s: Get of a %d-byte section with MaxAllowedSectionSize %d returned %v, want the section-too-large error (%v)", e.name, maxSect, maxSect-1, gerr, tl.sect)
					}
				}
			}
			x.Nontrivial("limits|" + cs.Seed + "|" + e.name)
		}
	}
	x.State("limits|" + cs.Seed)
	x.Outcome("limits")
}

func isTooLarge(err error) bool {
	tl := c09Sentinels()
	return c09Is(err, tl.hdr) || c09Is(err, tl.sect) || c09IsRoot(err)
}

func genC09(tier string, emit0 func(any)) {
	thorough := tier == "thorough"
	emit := emit0
	if f := os.Getenv("C09_FILTER"); f != "" {
		// debugging aid: only the cases whose JSON contains every comma-separated fragment
		emit = func(c any) {
			b, _ := json.Marshal(c)
			for _, frag := range strings.Split(f, ",") {
				if !strings.Contains(string(b), frag) {
					return
				}
			}
			emit0(c)
		}
	}
	// the 100000-deep nestings (100-300 KB of header) only where the header limit lets them reach the decoder
	cborClass := func(limit string) string {
		if limit == "default" {
			return "cbordeep"
		}
		return "cbor"
	}
	optSeeds := map[string]bool{"v1-ai": true, "v2-as": true, "v2noidx-a": true}
	for _, s := range c09Seeds() {
		switch {
		case s.isIdx:
			for _, set := range []string{"", "ext"} {
				emit(C09Case{Seed: s.name, Class: "byte", Limit: "small", Set: set})
				emit(C09Case{Seed: s.name, Class: "fields", Limit: "small", Set: set})
				if thorough {
					emit(C09Case{Seed: s.name, Class: "pair", Limit: "small", Set: set})
				}
			}
			continue
		case s.large:
			// structural positions and fields only (reduced matrix: no every-position classes)
			emit(C09Case{Seed: s.name, Class: "fields", Limit: "small"})
			for _, set := range []string{"", "ext"} {
				for _, limit := range []string{"small", "default", "swap"} {
					for _, zero := range []bool{false, true} {
						if !thorough && (zero || limit == "swap") {
							continue
						}
						emit(C09Case{Seed: s.name, Class: "struct", Limit: limit, Zero: zero, Set: set})
						emit(C09Case{Seed: s.name, Class: "lens", Limit: limit, Zero: zero, Set: set})
						if !zero && (thorough || limit == "small") {
							emit(C09Case{Seed: s.name, Class: cborClass(limit), Limit: limit, Zero: zero, Set: set})
						}
					}
				}
			}
		default:
			for _, limit := range []string{"small", "default", "swap"} {
				for _, zero := range []bool{false, true} {
					// core entry points
					if limit != "swap" || !zero || thorough {
						emit(C09Case{Seed: s.name, Class: "byte", Limit: limit, Zero: zero})
					}
					if limit == "small" {
						emit(C09Case{Seed: s.name, Class: "fields", Limit: limit, Zero: zero})
					} else {
						emit(C09Case{Seed: s.name, Class: "lens", Limit: limit, Zero: zero})
					}
					if (!zero && limit != "swap") || thorough {
						emit(C09Case{Seed: s.name, Class: cborClass(limit), Limit: limit, Zero: zero})
					}
					if thorough && limit == "small" && !zero {
						// the long enumerations are split so that all workers share them
						for sh := 0; sh < 4; sh++ {
							emit(C09Case{Seed: s.name, Class: "pair", Limit: limit, Zero: zero, Shard: sh, Shards: 4})
						}
						for sh := 0; sh < 8; sh++ {
							emit(C09Case{Seed: s.name, Class: "pair", Limit: limit, Zero: zero, Set: "ext", Shard: sh, Shards: 8})
						}
					}
					// extended entry points (reduced matrix in the quick tier)
					if (limit == "small" && !zero) || (thorough && (limit != "swap" || !zero)) {
						emit(C09Case{Seed: s.name, Class: "byte", Limit: limit, Zero: zero, Set: "ext"})
					}
					if (!zero && limit != "default") || thorough {
						if limit == "small" && thorough {
							emit(C09Case{Seed: s.name, Class: "fields", Limit: limit, Zero: zero, Set: "ext"})
						} else {
							emit(C09Case{Seed: s.name, Class: "lens", Limit: limit, Zero: zero, Set: "ext"})
						}
					}
					if (limit == "small" && !zero) || (thorough && !zero) {
						emit(C09Case{Seed: s.name, Class: cborClass(limit), Limit: limit, Zero: zero, Set: "ext"})
					}
				}
			}
			// option variants (reduced matrix: one limit setting; three seeds in the quick tier)
			for _, opt := range []string{"sw", "tm", "so"} {
				if thorough || optSeeds[s.name] {
					emit(C09Case{Seed: s.name, Class: "byte", Limit: "small", Opt: opt})
					emit(C09Case{Seed: s.name, Class: "lens", Limit: "small", Opt: opt})
				}
				if thorough {
					emit(C09Case{Seed: s.name, Class: "byte", Limit: "small", Opt: opt, Set: "ext"})
					emit(C09Case{Seed: s.name, Class: "lens", Limit: "swap", Opt: opt, Set: "ext"})
				}
			}
		}
		emit(C09Case{Seed: s.name, Class: "limits"})
	}
}

func init() {
	kit.Register(&kit.Prop{
		ID:     "C09",
		Gen:    genC09,
		Run:    runC09,
		Decode: kit.DecodeAs[C09Case],
		Rule: "deviation-bounded mutation of valid seeds (CARv1/CARv2/padded/index-less archives with 1-byte length prefixes; a 128-byte, a 5000-byte and a 16384-byte section (2/3-byte prefixes, over the small limits and the 4 KiB bufio size); a 100-root header over 4 KiB; detached indexes of both codecs, synthetic and real; the InsertionIndex form): 0 deviations (the seed must be accepted); EVERY position x byte alphabet {00,01,7f,80,ff,+1,-1} and EVERY truncation (1 deviation; for the three large seeds only the structural positions + every 509th); thorough: all pairs inside the structural regions (2 deviations); the product of boundary values of every numeric field (CARv2 header offsets/sizes; header and section-0 length varints at 0,1,2,127/128,1023-1025,2047-2049,4095-4097,16383/4,8 MiB+-1,32 MiB+-1,2^31,2^32,2^63-1,2^63,2^64-1, each also non-minimal, 10/11-byte and unterminated, and for CARv2 both with and without DataSize/IndexOffset following the new width; index count/code/width/length fields); class cbor: every CBOR head of the header re-encoded (all argument widths, count+-1, 2^22, 2^32-1, 2^63-1, 2^63, 2^64-1, indefinite, every other major type), nesting 1/100/4000/100000 deep, header cut at every item, root CID and section-0 CID with non-minimal / huge / zero varints, all with the enclosing length prefixes and the CARv2 header re-computed " +
			"x limits {header 4096/section 2048, 2048/4096, defaults} x ZeroLengthSectionAsEOF x option variants {StoreIdentityCIDs+UseWholeCIDs(+root ErrorOnEmptyRoots), TrustedCAR+MaxIndexCidSize 36, index codec sorted} (reduced matrix: small limits only) x every parsing entry point: core set (26) and extended set (source capability kinds ReaderAt-only / Read+Seek-only / bufio ByteReader / go-car's offsetReadSeeker / *os.File / pipe / mmap; resume of blockstore.OpenReadWrite and storage.OpenReadableWritable in both formats; caller-supplied mutant index; InsertionIndex.Unmarshal; index ForEach and lookups with digests matching mutated widths/codes; util.ReadCid at every offset), objects used on after their first error and closed; each run in a child process with an address-space limit; " +
			"oracle: no panic, no fatal error (child death is attributed to the announced input), reads/seeks within 64*(len+64), allocation per API call <= max(header max, section max) (section max only when only a section length was planted) + proportional part + 1 MiB and per entry point <= header max + section max + ..., a planted length over the limit is answered with the too-large error of the build under test (identified by probing it, errors.Is or quoted; no error text is pinned; header-vs-section kind, a listing that skips the header unbuffered, and entry points that pass over sections without buffering them - SkipNext, Inspect, odd steps of alternate - are recorded as beyond-statement outcomes) and one within it is not, the valid seed is accepted at limits exactly its header/largest section and refused with the too-large error one below by every entry point that buffers it (incl. blockstore Get - or already the open - and the root module's global); states = mutants, executions = (mutant, entry point) runs",
		Bound: func(tier string) map[string]any {
			dev := 1
			if tier == "thorough" {
				dev = 2
			}
			return map[string]any{"deviations": dev, "entry_points_core": len(c09Entries()), "entry_points_extended": len(c09ExtEntries()), "seeds": len(c09Seeds()), "limit_settings": 3, "option_variants": 4}
		},
		Assumptions: []string{"coverage statement over the deviation-bounded neighbourhood of the seeds and the field-boundary / CBOR-head products, not over all byte strings", "allocation is measured with runtime/metrics /gc/heap/allocs:bytes around each call in a 2-thread child", "a 30 s watchdog per call only guards the harness; a hang is reported as such and re-executed 5 times before it is believed",
			"reduced matrices (stated, not sampled): extended entry points x {small limits, ZeroEOF off} in the quick tier; option variants x small limits only (3 seeds in the quick tier); large seeds: structural positions only", "storage.Get/GetStream read through a section reader bounded by the file and are not required to report the section-too-large error", "length prefixes >= 2^63 are answered by go-varint with its own overflow error; the too-large error is demanded below 2^63 only",
			"file-, pipe- and mmap-backed entry points are not step-counted (watchdog only)",
			"the too-large errors are taken from the build under test (a 100-byte length prefix under a limit of 1 through verifbridge.ReadHeaderV1 / CarV1Reader.Next / root util.LdRead; root module: compared with numbers masked); the statement obliges only entry points that BUFFER a header/section: Roots (returns the header) is obliged, AllKeysChan, SkipNext and Inspect are not (beyond-statement outcomes)",
			"an out-of-memory death of the child is labelled by the mutant's region (c09DeathRegion), as the in-process allocation signatures are"},
	})
}
