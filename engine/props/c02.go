package props

import (
	"bytes"
	"fmt"

	carv2 "github.com/ipld/go-car/v2"

	"verif/drv"
	"verif/kit"
	"verif/refcar"
)

type C02Mut struct {
	Kind string `json:"kind"` // flip, trunc
	Pos  int    `json:"pos"`
	Bit  int    `json:"bit,omitempty"`
}

type C02Case struct {
	Seq  []string `json:"seq"`
	Cont string   `json:"cont"` // v1, v2, v2pad
	Mut  *C02Mut  `json:"mut,omitempty"`
}

// c02Readers: verifying scanning readers; the bool says whether the reader hands out data.
var c02V1Readers = []string{"br-bytes", "br-stream", "root-reader", "root-load", "root-load-batch", "int-reader", "int-load"}
var c02V2Readers = []string{"br-bytes", "br-stream"}
var c02SkipReaders = []string{"br-skip-bytes", "br-skip-stream"}

func runC02(c any, x *kit.Ctx) {
	cs := c.(C02Case)
	_, rootRaws, _ := kit.Roots("a")
	var rb []refcar.Block
	for _, b := range kit.Bs(cs.Seq) {
		rb = append(rb, b.Ref())
	}
	payload := refcar.EncodeV1(rootRaws, false, rb)
	pl, err := refcar.DecodePayload(payload, false, true)
	if err != nil {
		panic(err)
	}
	var file []byte
	base := 0
	switch cs.Cont {
	case "v1":
		file = payload
	case "v2":
		file = refcar.EncodeV2(payload, 0, 0, refcar.EncodeIndex(refcar.CodecMhIndexSorted, refcar.RecordsOf(pl, false)), false)
		base = 51
	case "v2pad":
		file = refcar.EncodeV2(payload, 3, 2, refcar.EncodeIndex(refcar.CodecIndexSorted, refcar.RecordsOf(pl, false)), false)
		base = 54
	}
	payloadEnd := base + len(payload)
	readers := c02V1Readers
	if cs.Cont != "v1" {
		readers = c02V2Readers
	}
	// section boundaries (file offsets) at which a truncation is a clean end
	boundary := map[int]bool{base + int(pl.HeaderLen): true}
	for _, s := range pl.Sections {
		boundary[base+int(s.Offset+s.Len)] = true
	}
	// which section does file offset p damage?
	sectionOf := func(p int) int {
		for i, s := range pl.Sections {
			if p >= base+int(s.Offset) && p < base+int(s.Offset+s.Len) {
				return i
			}
		}
		return -1
	}

	checkIntact := func(r *drv.ReadResult, rk string, mut C02Mut, limit int) {
		// (a) everything handed out hashes to its CID, and equals the original prefix
		for i, b := range r.Blocks {
			if b.Data == nil && (rk == "br-skip-bytes" || rk == "br-skip-stream") {
				continue
			}
			ok, err := refcar.VerifyBlock(b.Cid, b.Data)
			if err != nil || !ok {
				x.FailCase(C02Case{cs.Seq, cs.Cont, &mut}, "c02:corrupt-block-returned:"+rk+":"+mut.Kind, "reader %s returned block #%d whose bytes do not hash to its CID (%v) under mutation %+v", rk, i, err, mut)
				return
			}
			if i < limit && (!bytes.Equal(b.Cid, pl.Sections[i].Cid) || !bytes.Equal(b.Data, pl.Sections[i].Data)) {
				x.FailCase(C02Case{cs.Seq, cs.Cont, &mut}, "c02:wrong-block-before-damage:"+rk+":"+mut.Kind, "reader %s block #%d differs from the original although the damage is later (mutation %+v)", rk, i, mut)
				return
			}
		}
	}

	runFlip := func(pos, bit int) {
		mut := C02Mut{Kind: "flip", Pos: pos, Bit: bit}
		m := append([]byte{}, file...)
		m[pos] ^= 1 << bit
		si := sectionOf(pos)
		for _, rk := range readers {
			r := drv.Read(rk, x.Dir, m, drv.Opts{})
			x.Eval(1)
			x.Transition(len(r.Blocks) + 1)
			checkIntact(r, rk, mut, si)
			if r.OpenErr == nil && r.Err == nil {
				x.FailCase(C02Case{cs.Seq, cs.Cont, &mut}, "c02:flip-undetected:"+rk, "reader %s completed cleanly over an archive with bit %d of byte %d flipped (section %d)", rk, bit, pos, si)
			} else if len(r.Blocks) > si {
				x.FailCase(C02Case{cs.Seq, cs.Cont, &mut}, "c02:flip-late:"+rk, "reader %s returned %d blocks but section %d is damaged", rk, len(r.Blocks), si)
			}
		}
		rd, err := carv2.NewReader(bytes.NewReader(m))
		x.Eval(1)
		if err == nil {
			if _, err := rd.Inspect(true); err == nil {
				x.FailCase(C02Case{cs.Seq, cs.Cont, &mut}, "c02:flip-undetected:inspect", "Inspect(true) accepts an archive with bit %d of byte %d flipped (section %d)", bit, pos, si)
			}
		}
	}
	runTrunc := func(L int) {
		mut := C02Mut{Kind: "trunc", Pos: L}
		m := file[:L]
		si := sectionOf(L)
		if si < 0 {
			si = 0
			for i, s := range pl.Sections {
				if L >= base+int(s.Offset+s.Len) {
					si = i + 1
				}
			}
		}
		all := append(append([]string{}, readers...), c02SkipReaders...)
		for _, rk := range all {
			r := drv.Read(rk, x.Dir, m, drv.Opts{})
			x.Eval(1)
			x.Transition(len(r.Blocks) + 1)
			checkIntact(r, rk, mut, len(pl.Sections))
			if r.OpenErr == nil && r.Err == nil {
				x.FailCase(C02Case{cs.Seq, cs.Cont, &mut}, "c02:trunc-clean-eof:"+rk+":"+truncWhere(L, base, int(pl.HeaderLen)), "reader %s reports a clean end for a prefix of %d bytes that does not end on a section boundary (%d blocks returned)", rk, L, len(r.Blocks))
			} else if len(r.Blocks) > si {
				x.FailCase(C02Case{cs.Seq, cs.Cont, &mut}, "c02:trunc-extra-blocks:"+rk, "reader %s returned %d blocks from a prefix holding %d complete sections", rk, len(r.Blocks), si)
			}
		}
		rd, err := carv2.NewReader(bytes.NewReader(m))
		x.Eval(1)
		if err == nil {
			if _, err := rd.Inspect(true); err == nil {
				x.FailCase(C02Case{cs.Seq, cs.Cont, &mut}, "c02:trunc-clean-eof:inspect:"+truncWhere(L, base, int(pl.HeaderLen)), "Inspect(true) accepts a prefix of %d bytes that does not end on a section boundary", L)
			}
		}
	}

	if cs.Mut != nil {
		if cs.Mut.Kind == "flip" {
			runFlip(cs.Mut.Pos, cs.Mut.Bit)
		} else {
			runTrunc(cs.Mut.Pos)
		}
		return
	}
	// sanity: the unmutated archive reads cleanly (0 deviations); the blocks are judged AFTER the
	// whole scan, so a reader that hands out views into a buffer it later reuses is caught
	for _, rk := range readers {
		r := drv.Read(rk, x.Dir, file, drv.Opts{})
		x.Eval(1)
		if r.OpenErr != nil || r.Err != nil || len(r.Blocks) != len(pl.Sections) {
			x.Fail("c02:valid-rejected:"+rk, "reader %s fails on the unmutated archive: %v %v", rk, r.OpenErr, r.Err)
			continue
		}
		for i, b := range r.Blocks {
			if ok, err := refcar.VerifyBlock(b.Cid, b.Data); err != nil || !ok {
				x.Fail("c02:block-corrupt-after-scan:"+rk, "reader %s: block #%d of a VALID archive no longer hashes to its CID once the scan has finished (retained data overwritten?)", rk, i)
				break
			}
		}
	}
	if len(cs.Seq) > 100 {
		x.State(fmt.Sprintf("%s|large", cs.Cont))
		x.Nontrivial(fmt.Sprintf("large|%s", cs.Cont))
		return // the large archive is only read unmutated
	}
	nm := 0
	// every single-bit flip of every data byte and every digest byte
	for _, s := range pl.Sections {
		vn := refcar.UvarintSize(uint64(len(s.Cid) + len(s.Data)))
		digestStart := base + int(s.Offset) + vn + (len(s.Cid) - len(s.Info.Digest))
		end := base + int(s.Offset+s.Len)
		for p := digestStart; p < end; p++ {
			for bit := 0; bit < 8; bit++ {
				runFlip(p, bit)
				nm++
			}
		}
	}
	// every proper prefix inside headers or sections that is not a section boundary
	for L := 0; L < payloadEnd; L++ {
		if boundary[L] {
			continue
		}
		runTrunc(L)
		nm++
	}
	x.Count("mutants", nm)
	x.State(fmt.Sprintf("%s|%x", cs.Cont, payload))
	x.Outcome(fmt.Sprintf("sections=%d", len(pl.Sections)))
	if len(pl.Sections) >= 1 {
		x.Nontrivial(fmt.Sprintf("%v|%s", cs.Seq, cs.Cont))
	}
}

func truncWhere(L, base, hdr int) string {
	switch {
	case L < 11 && base > 0:
		return "pragma"
	case L < 51 && base > 0:
		return "v2header"
	case L < base:
		return "padding"
	case L < base+hdr:
		return "v1header"
	}
	return "section"
}

func genC02(tier string, emit func(any)) {
	names := []string{"a", "e", "a0", "i", "s", "t", "k"}
	maxLen := 2
	if tier == "thorough" {
		names = append(names, "b", "a'", "i0", "ia")
		maxLen = 3
	}
	var seqs [][]string
	kit.Seqs(names, maxLen, func(s []string) { seqs = append(seqs, s) })
	seqs = append(seqs, []string{"L127"}, []string{"L128", "a"})
	if tier == "thorough" {
		seqs = append(seqs, []string{"L16383", "a"}, []string{"a", "L16384"})
	}
	for _, sq := range seqs {
		for _, cont := range []string{"v1", "v2", "v2pad"} {
			emit(C02Case{Seq: sq, Cont: cont})
		}
	}
	// an archive larger than any reader-internal buffer, read unmutated with the blocks retained
	for _, cont := range []string{"v1", "v2"} {
		emit(C02Case{Seq: kit.ManyNames(300), Cont: cont})
	}
}

func init() {
	kit.Register(&kit.Prop{
		ID:     "C02",
		Gen:    genC02,
		Run:    runC02,
		Decode: kit.DecodeAs[C02Case],
		Rule: "for every archive up to the bound (CARv1, CARv2, padded CARv2): EVERY single-bit flip of every block-data and CID-digest byte and EVERY proper prefix not ending on a section boundary, fed to every verifying scanning reader " +
			"(BlockReader.Next over bytes/stream, SkipNext for truncations, root CarReader/LoadCar (both store kinds), internal carv1 reader/loader, Inspect(true)); case = one archive, executions = reader runs over mutants; non-trivial = archive with >=1 section",
		Bound: func(tier string) map[string]any {
			if tier == "thorough" {
				return map[string]any{"seq_len": 3, "alphabet": 11, "deviations": 1, "flips": "all bits of data+digest bytes", "truncations": "all offsets"}
			}
			return map[string]any{"seq_len": 2, "alphabet": 7, "deviations": 1, "flips": "all bits of data+digest bytes", "truncations": "all offsets"}
		},
		Assumptions: []string{"refcar hashing (crypto/sha256, sha512, x/crypto/blake2b) is correct", "non-verifying paths (Inspect(false), index generation, AllKeysChan, TrustedCAR) are outside the property", "a CARv2 truncated exactly on a payload section boundary is exempt, as the property states"},
	})
}
