package props

import (
	"bytes"
	"encoding/binary"
	"errors"
	"fmt"
	"io"
	"strings"

	"github.com/multiformats/go-multihash"

	"verif/drv"
	"verif/kit"
	"verif/refcar"
)

type C02Mut struct {
	Kind    string `json:"kind"` // flip, flipx, trunc, datasize
	Pos     int    `json:"pos"`
	Bit     int    `json:"bit,omitempty"`
	ZeroEOF bool   `json:"zeroeof,omitempty"`
}

type C02Case struct {
	Seq  []string `json:"seq"`
	Cont string   `json:"cont"` // v1, v2, v2pad, v2noidx
	Mut  *C02Mut  `json:"mut,omitempty"`
	// Part selects one family of executions for this archive ("" = sanity + every mutant family):
	// sanity, flip, flipx, trunc, datasize, or one of the special modes large, batch, unknownhash.
	Part string `json:"part,omitempty"`
	// Roots names the header's root list: "" = one root (a); "abs" = three roots (a, b, s), which
	// makes the CARv1 header longer than 127 bytes (two-byte header length varint).
	Roots string `json:"roots,omitempty"`
	// Lo/Hi restrict the mutated file offsets of the family to [Lo,Hi) when Hi > 0 (large
	// sections are split into several cases so that they spread over the workers).
	Lo int `json:"lo,omitempty"`
	Hi int `json:"hi,omitempty"`
}

// verifying scanning readers; a kind is <reader>[-<source>], see drv.ReadC02. The first list of
// each pair is the original set, the second adds the remaining source capability kinds.
var c02V1Readers = []string{"br-bytes", "br-stream", "root-reader", "root-load", "root-load-batch", "int-reader", "int-load"}
var c02V1ReadersX = []string{"br-file", "br-bufio", "br-dataerr", "br-onebyte", "root-reader-dataerr", "root-reader-onebyte", "int-reader-bytes", "int-reader-dataerr", "int-reader-onebyte", "int-load-batch"}
var c02V2Readers = []string{"br-bytes", "br-stream"}
var c02V2ReadersX = []string{"br-file", "br-bufio", "br-dataerr", "br-onebyte"}
var c02SkipReaders = []string{"br-skip-bytes", "br-skip-stream"}
var c02SkipReadersX = []string{"br-skip-file", "br-skip-bufio", "br-skip-dataerr", "br-skip-onebyte"}

// c02UnknownHash: multihash codes that no hasher is registered for (private-use range, and an
// unassigned one-byte code); checked against the registry at run time.
var c02UnknownHash = map[string]uint64{"u": 0x300000, "u10": 0x10}

func c02Block(name string) refcar.Block {
	if code, ok := c02UnknownHash[name]; ok {
		data := []byte("unverifiable " + name)
		d := make([]byte, 32)
		for i := range d {
			d[i] = byte(0xa0 + i)
		}
		return refcar.Block{Cid: refcar.CIDv1(refcar.CodecRaw, code, d), Data: data}
	}
	return kit.B(name).Ref()
}

// c02Verify is refcar.VerifyBlock, except that a digest truncated to zero bytes (which a
// single-bit flip of a digest-length byte 0x20 produces) is matched by any data: such a CID
// claims nothing, so a reader that hands the block out does not contradict the property.
func c02Verify(cidBytes, data []byte) (bool, error) {
	ci, err := refcar.ParseCID(cidBytes)
	if err != nil {
		return false, err
	}
	if ci.MhCode != refcar.MhIdentity && len(ci.Digest) == 0 {
		// the function only has to exist (refcar's own set, or registered with go-multihash as
		// e.g. sha2-384 = 0x20 is): there is no digest byte to compare
		if _, err := refcar.Digest(ci.MhCode, nil); err != nil {
			if _, herr := multihash.GetHasher(ci.MhCode); herr != nil {
				return false, err
			}
		}
		return true, nil
	}
	return refcar.VerifyBlock(cidBytes, data)
}

func c02Roots(name string) [][]byte {
	switch name {
	case "":
		_, raws, _ := kit.Roots("a")
		return raws
	case "abs":
		return [][]byte{kit.B("a").Raw, kit.B("b").Raw, kit.B("s").Raw}
	}
	panic("unknown root list " + name)
}

func c02ErrClass(phase string, err error) string {
	switch {
	case err == io.EOF:
		return phase + ":bare-EOF"
	case err == io.ErrUnexpectedEOF:
		return phase + ":UnexpectedEOF"
	case errors.Is(err, io.EOF):
		return phase + ":wraps-EOF"
	case errors.Is(err, io.ErrUnexpectedEOF):
		return phase + ":wraps-UnexpectedEOF"
	}
	return phase + ":other"
}

func takesZeroEOF(rk string) bool {
	r, _ := drv.SplitScanKind(rk)
	return r == "br" || r == "br-skip" || r == "int-reader"
}

func cat(ls ...[]string) []string {
	var out []string
	for _, l := range ls {
		out = append(out, l...)
	}
	return out
}

func runC02(c any, x *kit.Ctx) {
	cs := c.(C02Case)
	rootRaws := c02Roots(cs.Roots)
	var rb []refcar.Block
	unknown := -1 // index of the first block whose hash function is unavailable
	for i, n := range cs.Seq {
		if _, ok := c02UnknownHash[n]; ok && unknown < 0 {
			unknown = i
		}
		rb = append(rb, c02Block(n))
	}
	payload := refcar.EncodeV1(rootRaws, false, rb)
	pl, err := refcar.DecodePayload(payload, false, unknown < 0)
	if err != nil {
		panic(err)
	}
	var file []byte
	base := 0
	switch cs.Cont {
	case "v1":
		file = payload
	case "v2":
		file = refcar.EncodeV2(payload, 0, 0, refcar.EncodeIndex(refcar.CodecMhIndexSorted, refcar.RecordsOf(pl, false)), false)
		base = 51
	case "v2pad":
		file = refcar.EncodeV2(payload, 3, 2, refcar.EncodeIndex(refcar.CodecIndexSorted, refcar.RecordsOf(pl, false)), false)
		base = 54
	case "v2noidx":
		file = refcar.EncodeV2(payload, 0, 0, nil, false)
		base = 51
	default:
		panic("unknown container " + cs.Cont)
	}
	payloadEnd := base + len(payload)
	readers, readersX := c02V1Readers, c02V1ReadersX
	if cs.Cont != "v1" {
		readers, readersX = c02V2Readers, c02V2ReadersX
	}
	// Reader matrix. The original readers run on every mutant of every archive. The extra source
	// capability kinds (X) and the two extra Inspect sources run on every mutant of the "wide"
	// archives (at most one block, or the 300-block archive), and for the two-block archives on
	// the cuts inside the block sections; three-block archives get the original readers only.
	wide := len(cs.Seq) <= 1 || cs.Part == "large"
	mid := len(cs.Seq) == 2
	verifyingCore, scanningCore := readers, cat(readers, c02SkipReaders)
	verifying := cat(readers, readersX)
	scanning := cat(readers, readersX, c02SkipReaders, c02SkipReadersX)
	inspectCore := drv.InspectSources[:1]
	if cs.Part == "batch" {
		verifying = []string{"root-load-batch", "int-load-batch", "root-load", "int-load", "root-reader", "int-reader", "br-stream", "br-bytes"}
		verifyingCore = verifying
		scanning = cat(verifying, c02SkipReaders)
		scanningCore = scanning
	}
	// flips of header bytes (pragma, CARv2 header, padding, CARv1 header): on the empty archive and
	// on three one-block archives
	hdrFlips := len(cs.Seq) == 0 || (len(cs.Seq) == 1 && (cs.Seq[0] == "a" || cs.Seq[0] == "s" || cs.Seq[0] == "i"))
	pick := func(w bool, all, core []string) []string {
		if w {
			return all
		}
		return core
	}
	// section boundaries (file offsets) at which a truncation is a clean end
	boundary := map[int]bool{base + int(pl.HeaderLen): true}
	for _, s := range pl.Sections {
		boundary[base+int(s.Offset+s.Len)] = true
	}
	// which section does file offset p damage?
	sectionOf := func(p int) int {
		for i, s := range pl.Sections {
			if p >= base+int(s.Offset) && p < base+int(s.Offset+s.Len) {
				return i
			}
		}
		return -1
	}
	// first byte of the digest of section i (file offset): flips from there to the end of the
	// section change the digest or the data, and nothing else
	digestStart := func(i int) int {
		s := pl.Sections[i]
		vn := refcar.UvarintSize(uint64(len(s.Cid) + len(s.Data)))
		return base + int(s.Offset) + vn + (len(s.Cid) - len(s.Info.Digest))
	}
	// replay case of one mutant; Part is kept because it selects the reader matrix
	mcase := func(mut C02Mut) C02Case {
		return C02Case{Seq: cs.Seq, Cont: cs.Cont, Roots: cs.Roots, Part: cs.Part, Mut: &mut}
	}

	// loaders (LoadCar into a store) hand blocks to Put/PutMany: which of several copies of a block,
	// and in which order within a batch, is not fixed by the property; they are judged as a set
	isLoader := func(rk string) bool { return strings.Contains(rk, "-load") }
	among := func(b refcar.Block, n int) bool { // b is one of the first n sections of the archive
		for j := 0; j < n && j < len(pl.Sections); j++ {
			if bytes.Equal(b.Cid, pl.Sections[j].Cid) && bytes.Equal(b.Data, pl.Sections[j].Data) {
				return true
			}
		}
		return false
	}
	checkIntact := func(r *drv.ReadResultC02, rk string, mut C02Mut, limit int) {
		// (a) everything handed out hashes to its CID, and equals the original prefix
		skip := drv.IsSkipKind(rk)
		for i, b := range r.Blocks {
			if skip {
				if i < limit && !bytes.Equal(b.Cid, pl.Sections[i].Cid) {
					x.FailCase(mcase(mut), "c02:wrong-cid-before-damage:"+rk+":"+mut.Kind, "reader %s: CID #%d differs from the original although the damage is later (mutation %+v)", rk, i, mut)
					return
				}
				continue
			}
			ok, err := c02Verify(b.Cid, b.Data)
			if err != nil || !ok {
				x.FailCase(mcase(mut), "c02:corrupt-block-returned:"+rk+":"+mut.Kind, "reader %s returned block #%d whose bytes do not hash to its CID (%v) under mutation %+v", rk, i, err, mut)
				return
			}
			if isLoader(rk) {
				if limit >= len(r.Blocks) && !among(b, limit) {
					x.FailCase(mcase(mut), "c02:wrong-block-before-damage:"+rk+":"+mut.Kind, "loader %s delivered block #%d, which is none of the %d sections before the damage (mutation %+v)", rk, i, limit, mut)
					return
				}
				continue
			}
			if i < limit && (!bytes.Equal(b.Cid, pl.Sections[i].Cid) || !bytes.Equal(b.Data, pl.Sections[i].Data)) {
				x.FailCase(mcase(mut), "c02:wrong-block-before-damage:"+rk+":"+mut.Kind, "reader %s block #%d differs from the original although the damage is later (mutation %+v)", rk, i, mut)
				return
			}
		}
	}

	// flip of a bit of a digest or data byte: must be reported, nothing from the damaged section on is returned
	runFlip := func(pos, bit int) {
		mut := C02Mut{Kind: "flip", Pos: pos, Bit: bit}
		m := append([]byte{}, file...)
		m[pos] ^= 1 << bit
		si := sectionOf(pos)
		for _, rk := range pick(wide, verifying, verifyingCore) {
			r := drv.ReadC02(rk, x.Dir, m, drv.Opts{}, 0)
			x.Eval(1)
			x.Count("exec_flip", 1)
			x.Transition(len(r.Blocks) + 1)
			checkIntact(r, rk, mut, si)
			if r.OpenErr == nil && r.Err == nil {
				x.FailCase(mcase(mut), "c02:flip-undetected:"+rk, "reader %s completed cleanly over an archive with bit %d of byte %d flipped (section %d)", rk, bit, pos, si)
			} else if len(r.Blocks) > si && isLoader(rk) {
				// a loader that goes on behind a damaged section and reports it at the end: every
				// delivered block was verified above, and the damage is reported
				x.Outcome("beyond-statement:loader-delivers-behind-damage|" + rk)
			} else if len(r.Blocks) > si {
				x.FailCase(mcase(mut), "c02:flip-late:"+rk, "reader %s returned %d blocks but section %d is damaged", rk, len(r.Blocks), si)
			}
		}
		for _, ik := range pick(wide, drv.InspectSources, inspectCore) {
			_, oerr, err := drv.InspectFull(ik, m, drv.Opts{})
			x.Eval(1)
			if oerr == nil && err == nil {
				x.FailCase(mcase(mut), "c02:flip-undetected:"+ik, "Inspect(true) [%s] accepts an archive with bit %d of byte %d flipped (section %d)", ik, bit, pos, si)
			}
		}
	}
	// flip of a bit of any other byte (container header, padding, CARv1 header, section length,
	// CID version/codec/hash code/digest length): only part (a) of the property applies
	runFlipX := func(pos, bit int, zeroEOF bool) {
		mut := C02Mut{Kind: "flipx", Pos: pos, Bit: bit, ZeroEOF: zeroEOF}
		m := append([]byte{}, file...)
		m[pos] ^= 1 << bit
		si := sectionOf(pos)
		if si < 0 {
			si = 0 // a header flip: nothing is known to precede the damage
		}
		o := drv.Opts{ZeroEOF: zeroEOF}
		for _, rk := range pick(wide, scanning, scanningCore) {
			if zeroEOF && !takesZeroEOF(rk) {
				continue
			}
			r := drv.ReadC02(rk, x.Dir, m, o, 0)
			x.Eval(1)
			x.Count("exec_flipx", 1)
			x.Transition(len(r.Blocks) + 1)
			checkIntact(r, rk, mut, si)
		}
		for _, ik := range pick(wide, drv.InspectSources, inspectCore) {
			drv.InspectFull(ik, m, o) // no verdict is required; must not panic
			x.Eval(1)
		}
	}
	completeBefore := func(L int) int {
		si := sectionOf(L)
		if si < 0 {
			si = 0
			for i, s := range pl.Sections {
				if L >= base+int(s.Offset+s.Len) {
					si = i + 1
				}
			}
		}
		return si
	}
	inLenVarint := func(L int) bool { // the cut is inside or exactly at the end of a section's length varint
		si := sectionOf(L)
		if si < 0 {
			return false
		}
		s := pl.Sections[si]
		return L <= base+int(s.Offset)+refcar.UvarintSize(uint64(len(s.Cid)+len(s.Data)))
	}
	nearLenVarint := func(L int) bool { // the cut is inside / at the end of a section's length varint, or one byte later
		return inLenVarint(L) || inLenVarint(L-1)
	}
	// the payload ends at file offset L (not a section boundary): by truncating the file
	// (kind trunc) or, for a CARv2, by a header whose DataSize ends the payload there while the
	// file, index included, is complete (kind datasize)
	runCut := func(kind string, L int, zeroEOF bool) {
		mut := C02Mut{Kind: kind, Pos: L, ZeroEOF: zeroEOF}
		var m []byte
		sigKind := "trunc"
		if kind == "trunc" {
			m = file[:L]
		} else {
			sigKind = "datasize"
			m = append([]byte{}, file...)
			binary.LittleEndian.PutUint64(m[11+24:], uint64(L-base))
		}
		si := completeBefore(L)
		where := truncWhere(L, base, int(pl.HeaderLen))
		o := drv.Opts{ZeroEOF: zeroEOF}
		w := wide || (mid && L >= base+int(pl.HeaderLen))
		for _, rk := range pick(w, scanning, scanningCore) {
			if zeroEOF && !takesZeroEOF(rk) {
				continue
			}
			r := drv.ReadC02(rk, x.Dir, m, o, 0)
			x.Eval(1)
			x.Count("exec_"+sigKind, 1)
			x.Transition(len(r.Blocks) + 1)
			checkIntact(r, rk, mut, len(pl.Sections))
			if r.OpenErr == nil && r.Err == nil {
				x.FailCase(mcase(mut), "c02:"+sigKind+"-clean-eof:"+rk+":"+where, "reader %s reports a clean end for a payload of %d bytes that does not end on a section boundary (%d blocks returned; %s, zeroEOF=%v)", rk, L-base, len(r.Blocks), kind, zeroEOF)
			} else if len(r.Blocks) > si {
				x.FailCase(mcase(mut), "c02:"+sigKind+"-extra-blocks:"+rk, "reader %s returned %d blocks from a prefix holding %d complete sections (%s)", rk, len(r.Blocks), si, kind)
			}
			if r.OpenErr != nil {
				x.Outcome(sigKind + "|" + where + "|" + c02ErrClass("open", r.OpenErr))
			} else if r.Err != nil {
				x.Outcome(sigKind + "|" + where + "|" + c02ErrClass("iter", r.Err))
			}
		}
		for _, ik := range pick(w, drv.InspectSources, inspectCore) {
			_, oerr, err := drv.InspectFull(ik, m, o)
			x.Eval(1)
			if oerr == nil && err == nil {
				w := where
				if ik == "inspect-eager" && inLenVarint(L) {
					w += ":length-varint"
				}
				x.FailCase(mcase(mut), "c02:"+sigKind+"-clean-eof:"+ik+":"+w, "Inspect(true) [%s] accepts a payload of %d bytes that does not end on a section boundary (%s, zeroEOF=%v)", ik, L-base, kind, zeroEOF)
			}
		}
	}
	// isHashed: file offset p lies in the digest or the data of a section
	isHashed := func(p int) bool {
		si := sectionOf(p)
		return si >= 0 && p >= digestStart(si)
	}
	runMut := func(m C02Mut) {
		switch m.Kind {
		case "flip":
			runFlip(m.Pos, m.Bit)
		case "flipx":
			runFlipX(m.Pos, m.Bit, m.ZeroEOF)
		case "trunc", "datasize":
			runCut(m.Kind, m.Pos, m.ZeroEOF)
		default:
			panic("unknown mutation kind " + m.Kind)
		}
	}
	if cs.Mut != nil {
		runMut(*cs.Mut)
		return
	}

	// ---- the archive as it is: every reader returns exactly the original blocks, judged AFTER
	// the whole scan (so a reader that hands out views into a buffer it later reuses is caught),
	// a further Next after the clean end returns nothing, Inspect(true) accepts
	sanity := func() {
		for _, rk := range scanning {
			r := drv.ReadC02(rk, x.Dir, file, drv.Opts{}, 2)
			x.Eval(1)
			if isLoader(rk) && r.OpenErr == nil && r.Err == nil {
				// as a set: nothing foreign, nothing corrupt, every block of the archive delivered
				bad := ""
				for i, b := range r.Blocks {
					if ok, err := refcar.VerifyBlock(b.Cid, b.Data); err != nil || !ok {
						bad = fmt.Sprintf("delivered block #%d does not hash to its CID", i)
					} else if !among(b, len(pl.Sections)) {
						bad = fmt.Sprintf("delivered block #%d is not in the archive", i)
					}
				}
				for j, s := range pl.Sections {
					found := false
					for _, b := range r.Blocks {
						found = found || (bytes.Equal(b.Cid, s.Cid) && bytes.Equal(b.Data, s.Data))
					}
					if !found {
						bad = fmt.Sprintf("section #%d was not delivered", j)
					}
				}
				if len(r.Blocks) > len(pl.Sections) {
					bad = fmt.Sprintf("%d blocks delivered from %d sections", len(r.Blocks), len(pl.Sections))
				}
				if bad != "" {
					x.Fail("c02:valid-wrong-block:"+rk, "loader %s on a VALID archive: %s", rk, bad)
				}
				continue
			}
			if r.OpenErr != nil || r.Err != nil || len(r.Blocks) != len(pl.Sections) {
				x.Fail("c02:valid-rejected:"+rk, "reader %s fails on the unmutated archive: %v %v (%d of %d blocks)", rk, r.OpenErr, r.Err, len(r.Blocks), len(pl.Sections))
				continue
			}
			for i, b := range r.Blocks {
				if drv.IsSkipKind(rk) {
					if !bytes.Equal(b.Cid, pl.Sections[i].Cid) {
						x.Fail("c02:valid-wrong-block:"+rk, "reader %s: CID #%d of a VALID archive is not the one in the archive", rk, i)
						break
					}
					continue
				}
				if ok, err := refcar.VerifyBlock(b.Cid, b.Data); err != nil || !ok {
					x.Fail("c02:block-corrupt-after-scan:"+rk, "reader %s: block #%d of a VALID archive no longer hashes to its CID once the scan has finished (retained data overwritten?)", rk, i)
					break
				}
				if !bytes.Equal(b.Cid, pl.Sections[i].Cid) || !bytes.Equal(b.Data, pl.Sections[i].Data) {
					x.Fail("c02:valid-wrong-block:"+rk, "reader %s: block #%d of a VALID archive is not block #%d of the archive (duplicated / reordered / lost block)", rk, i, i)
					break
				}
			}
			// what a reader does when called again after its clean end is not part of the statement
			// (BlockReader.Next documents io.EOF, the other readers document nothing): a block handed
			// out there is a violation only if its bytes do not hash to its CID
			if len(r.PostBlocks) > 0 {
				x.Outcome("beyond-statement:block-after-eof|" + rk)
			}
			for i, b := range r.PostBlocks {
				if drv.IsSkipKind(rk) {
					continue
				}
				if ok, err := refcar.VerifyBlock(b.Cid, b.Data); err != nil || !ok {
					x.Fail("c02:block-after-eof:"+rk, "reader %s, called again after its clean end of archive, handed out block #%d whose bytes do not hash to its CID (%v)", rk, i, err)
					break
				}
			}
			for _, e := range r.PostErrs {
				x.Outcome("after-eof|" + c02ErrClass("next", e))
			}
		}
		for _, ik := range drv.InspectSources {
			n, oerr, err := drv.InspectFull(ik, file, drv.Opts{})
			x.Eval(1)
			if oerr != nil || err != nil || n != uint64(len(pl.Sections)) {
				x.Fail("c02:valid-rejected:"+ik, "Inspect(true) [%s] fails on the unmutated archive: %v %v (%d of %d blocks)", ik, oerr, err, n, len(pl.Sections))
			}
		}
		if cs.Cont == "v1" {
			// two root-module readers with overlapping lifetimes (their buffered readers are pooled)
			ri := drv.RootInterleave(file, file)
			x.Eval(2)
			if len(ri.APost) > 0 {
				x.Outcome("beyond-statement:block-after-eof|root-reader:interleaved")
			}
			for i, b := range ri.APost {
				if ok, err := refcar.VerifyBlock(b.Cid, b.Data); err != nil || !ok {
					x.Fail("c02:block-after-eof:root-reader:interleaved", "root CarReader A, called after its clean end while a second reader was open, handed out block #%d whose bytes do not hash to its CID (%v)", i, err)
					break
				}
			}
			bad := ri.A.OpenErr != nil || ri.B.OpenErr != nil || ri.A.Err != nil || ri.B.Err != nil || len(ri.B.Blocks) != len(pl.Sections) || len(ri.A.Blocks) != len(pl.Sections)
			if !bad {
				for i, b := range ri.B.Blocks {
					if !bytes.Equal(b.Cid, pl.Sections[i].Cid) || !bytes.Equal(b.Data, pl.Sections[i].Data) {
						bad = true
					}
				}
			}
			if bad {
				x.Fail("c02:valid-rejected:root-reader:interleaved", "root CarReader B, opened after reader A reached its end and scanned after two further A.Next calls, does not return the archive: A %v %v %d blocks, B %v %v %d blocks of %d", ri.A.OpenErr, ri.A.Err, len(ri.A.Blocks), ri.B.OpenErr, ri.B.Err, len(ri.B.Blocks), len(pl.Sections))
			}
		}
	}

	inRange := func(p int) bool { return cs.Hi <= 0 || (p >= cs.Lo && p < cs.Hi) }
	nm := 0
	flips := func() {
		// every single-bit flip of every data byte and every digest byte
		if len(cs.Seq) >= 3 && cs.Cont == "v2noidx" {
			return // three-block archives: the flips are taken in the three other containers
		}
		for i, s := range pl.Sections {
			end := base + int(s.Offset+s.Len)
			for p := digestStart(i); p < end; p++ {
				if !inRange(p) {
					continue
				}
				for bit := 0; bit < 8; bit++ {
					runFlip(p, bit)
					nm++
				}
			}
		}
	}
	flipxs := func() {
		// every single-bit flip of every other byte up to the end of the payload
		for p := 0; p < payloadEnd; p++ {
			if isHashed(p) || !inRange(p) {
				continue
			}
			if sectionOf(p) < 0 && !hdrFlips {
				continue // container / CARv1 header bytes (the same in every archive but for the sizes): taken on 4 archives per container and root list
			}
			for bit := 0; bit < 8; bit++ {
				runFlipX(p, bit, false)
				nm++
				if sectionOf(p) >= 0 {
					runFlipX(p, bit, true)
					nm++
				}
			}
		}
	}
	cuts := func(kind string) {
		// every payload end inside headers or sections that is not a section boundary
		lo := 0
		if kind == "datasize" {
			if cs.Cont == "v1" {
				return
			}
			lo = base
		}
		for L := lo; L < payloadEnd; L++ {
			if boundary[L] || !inRange(L) {
				continue
			}
			if cs.Cont == "v1" && len(cs.Seq) == 3 && cs.Roots == "" && L < int(pl.HeaderLen) {
				continue // the very same byte string as for every shorter sequence (same header)
			}
			runCut(kind, L, false)
			nm++
			if len(cs.Seq) >= 3 && !nearLenVarint(L) {
				continue // three-block archives: ZeroLengthSectionAsEOF only where a length is being read
			}
			runCut(kind, L, true)
			nm++
		}
	}

	switch cs.Part {
	case "":
		sanity()
		flips()
		flipxs()
		cuts("trunc")
		cuts("datasize")
	case "sanity":
		sanity()
	case "flip":
		flips()
	case "flipx":
		flipxs()
	case "trunc", "datasize":
		cuts(cs.Part)
	case "large", "batch":
		// archives larger than any reader-internal buffer (bufio 4096) / batch (1000 blocks):
		// read unmutated with the blocks retained, then a FIXED mutant set around the buffer
		// boundaries, the batch boundary and the two ends
		sanity()
		var pts []int // file offsets
		secPts := func(i int) {
			s := pl.Sections[i]
			pts = append(pts, base+int(s.Offset)+refcar.UvarintSize(uint64(len(s.Cid)+len(s.Data))), digestStart(i), base+int(s.Offset+s.Len)-1)
			if cs.Part == "large" {
				pts = append(pts, base+int(s.Offset), base+int(s.Offset+s.Len)-1-len(s.Data)/2)
			}
		}
		secPts(0)
		secPts(len(pl.Sections) - 1)
		if cs.Part == "large" {
			for k := 4096; k < len(payload); k += 4096 {
				pts = append(pts, base+k-1, base+k, base+k+1)
			}
		} else {
			for _, i := range []int{1000, 1001, 1050} {
				if i < len(pl.Sections) {
					secPts(i)
				}
			}
		}
		for _, p := range pts {
			if p < base+int(pl.HeaderLen) || p >= payloadEnd {
				continue
			}
			for _, bit := range []int{0, 7} {
				if isHashed(p) {
					runFlip(p, bit)
				} else {
					runFlipX(p, bit, false)
				}
				nm++
			}
			if !boundary[p] {
				runCut("trunc", p, false)
				nm++
				if cs.Cont != "v1" {
					runCut("datasize", p, false)
					nm++
				}
			}
		}
		x.Count("large_archive_mutant_offsets", len(pts))
		if cs.Part == "batch" {
			// non-vacuity of the batch loaders: a flip in block 1050 leaves the first batch delivered
			p := digestStart(1050)
			m := append([]byte{}, file...)
			m[p] ^= 1
			for _, rk := range []string{"root-load-batch", "int-load-batch"} {
				r := drv.ReadC02(rk, x.Dir, m, drv.Opts{}, 0)
				x.Outcome(fmt.Sprintf("batch|%s|delivered-before-error=%d", rk, len(r.Blocks)))
			}
		}
	case "unknownhash":
		// a block whose CID names a hash function that is not available cannot be verified:
		// no verifying reader may hand it out, Inspect(true) must fail
		mut := C02Mut{Kind: "unknownhash"}
		for n, code := range c02UnknownHash {
			if _, err := multihash.GetHasher(code); err == nil {
				x.NotExhaustive(fmt.Sprintf("hash code 0x%x of alphabet block %s is registered in this build", code, n))
				return
			}
		}
		for _, rk := range verifying {
			r := drv.ReadC02(rk, x.Dir, file, drv.Opts{}, 0)
			x.Eval(1)
			x.Transition(len(r.Blocks) + 1)
			for i, b := range r.Blocks {
				ok, err := c02Verify(b.Cid, b.Data)
				if err != nil || !ok {
					x.Fail("c02:unverifiable-block-returned:"+rk, "reader %s returned block #%d although its bytes cannot be checked against its CID (%v)", rk, i, err)
					break
				}
				if isLoader(rk) {
					// a loader's deliveries are judged as a set (see checkIntact)
					if unknown >= len(r.Blocks) && !among(b, unknown) {
						x.Fail("c02:wrong-block-before-damage:"+rk+":"+mut.Kind, "loader %s delivered block #%d, which is none of the %d sections before the unverifiable one", rk, i, unknown)
						break
					}
					continue
				}
				if i < unknown && (!bytes.Equal(b.Cid, pl.Sections[i].Cid) || !bytes.Equal(b.Data, pl.Sections[i].Data)) {
					x.Fail("c02:wrong-block-before-damage:"+rk+":"+mut.Kind, "reader %s block #%d differs from the original", rk, i)
					break
				}
			}
			if r.OpenErr == nil && r.Err == nil {
				x.Outcome("unknownhash|" + rk + "|clean")
			} else {
				x.Outcome("unknownhash|error")
			}
		}
		for _, ik := range drv.InspectSources {
			_, oerr, err := drv.InspectFull(ik, file, drv.Opts{})
			x.Eval(1)
			if oerr == nil && err == nil {
				x.Fail("c02:unverifiable-accepted:"+ik, "Inspect(true) [%s] accepts an archive holding a block whose hash function is unavailable", ik)
			}
		}
		x.State(fmt.Sprintf("%s|%x|unknownhash", cs.Cont, payload))
		x.Nontrivial(fmt.Sprintf("%v|%s|unknownhash", cs.Seq, cs.Cont))
		return
	default:
		panic("unknown part " + cs.Part)
	}
	x.Count("mutants", nm)
	if len(cs.Seq) > 100 {
		x.State(fmt.Sprintf("%s|many%d", cs.Cont, len(cs.Seq)))
		x.Nontrivial(fmt.Sprintf("many%d|%s", len(cs.Seq), cs.Cont))
		return
	}
	x.State(fmt.Sprintf("%s|%x|%s|%d", cs.Cont, payload, cs.Part, cs.Lo))
	x.Outcome(fmt.Sprintf("sections=%d", len(pl.Sections)))
	if len(pl.Sections) >= 1 {
		x.Nontrivial(fmt.Sprintf("%v|%s|%s", cs.Seq, cs.Cont, cs.Roots))
	}
}

func truncWhere(L, base, hdr int) string {
	switch {
	case L < 11 && base > 0:
		return "pragma"
	case L < 51 && base > 0:
		return "v2header"
	case L < base:
		return "padding"
	case L < base+hdr:
		return "v1header"
	}
	return "section"
}

var c02Conts = []string{"v1", "v2", "v2pad", "v2noidx"}

// c02EmitSplit emits the archive as several cases: sanity, and each mutant family cut into
// ranges of file offsets, so that one large archive spreads over the workers.
func c02EmitSplit(sq []string, cont string, flipChunk, cutChunk int, emit func(any)) {
	_, rootRaws, _ := kit.Roots("a")
	var rb []refcar.Block
	for _, n := range sq {
		rb = append(rb, c02Block(n))
	}
	size := len(refcar.EncodeV1(rootRaws, false, rb)) + 54
	emit(C02Case{Seq: sq, Cont: cont, Part: "sanity"})
	emit(C02Case{Seq: sq, Cont: cont, Part: "flipx"})
	for lo := 0; lo < size; lo += flipChunk {
		emit(C02Case{Seq: sq, Cont: cont, Part: "flip", Lo: lo, Hi: lo + flipChunk})
	}
	for lo := 0; lo < size; lo += cutChunk {
		emit(C02Case{Seq: sq, Cont: cont, Part: "trunc", Lo: lo, Hi: lo + cutChunk})
		if cont != "v1" {
			emit(C02Case{Seq: sq, Cont: cont, Part: "datasize", Lo: lo, Hi: lo + cutChunk})
		}
	}
}

func genC02(tier string, emit func(any)) {
	names := []string{"a", "e", "a0", "i", "s", "t", "k"}
	maxLen := 2
	if tier == "thorough" {
		names = append(names, "b", "a'", "i0", "ia")
		maxLen = 3
	}
	var seqs [][]string
	kit.Seqs(names, maxLen, func(s []string) { seqs = append(seqs, s) })
	seqs = append(seqs, []string{"L127"}, []string{"L128", "a"})
	for _, sq := range seqs {
		for _, cont := range c02Conts {
			emit(C02Case{Seq: sq, Cont: cont})
		}
	}
	// a CARv1 header with a two-byte length varint (three roots)
	for _, sq := range [][]string{{}, {"a"}, {"s", "a"}} {
		for _, cont := range c02Conts {
			emit(C02Case{Seq: sq, Cont: cont, Roots: "abs"})
		}
	}
	// a block whose hash function is unavailable
	for _, u := range []string{"u", "u10"} {
		for _, sq := range [][]string{{u}, {"a", u}, {u, "a"}, {"a", u, "s"}} {
			for _, cont := range []string{"v1", "v2", "v2noidx"} {
				emit(C02Case{Seq: sq, Cont: cont, Part: "unknownhash"})
			}
		}
	}
	// archives larger than any reader-internal buffer / batch: unmutated with the blocks
	// retained, plus a fixed mutant set
	for _, cont := range []string{"v1", "v2", "v2noidx"} {
		emit(C02Case{Seq: kit.ManyNames(300), Cont: cont, Part: "large"})
	}
	emit(C02Case{Seq: kit.ManyNames(1100), Cont: "v1", Part: "batch"})
	// sections larger than the root reader's 4096-byte buffer; in the quick tier only the flips of
	// the data bytes around the buffer boundary and at both ends of the section are taken
	if tier != "thorough" {
		for _, cont := range []string{"v1", "v2noidx"} {
			sq := []string{"L5000"}
			emit(C02Case{Seq: sq, Cont: cont, Part: "sanity"})
			emit(C02Case{Seq: sq, Cont: cont, Part: "flipx"})
			hdr := 59
			if cont != "v1" {
				hdr += 51
			}
			for _, w := range [][2]int{{hdr, hdr + 48}, {4096 - 6, 4096 + 6}, {hdr + 4096 - 6, hdr + 4096 + 6}, {hdr + 2 + 5000 - 8, hdr + 2 + 5000}} {
				emit(C02Case{Seq: sq, Cont: cont, Part: "flip", Lo: w[0], Hi: w[1]})
			}
			for lo := 0; lo < 5200; lo += 650 {
				emit(C02Case{Seq: sq, Cont: cont, Part: "trunc", Lo: lo, Hi: lo + 650})
				if cont != "v1" {
					emit(C02Case{Seq: sq, Cont: cont, Part: "datasize", Lo: lo, Hi: lo + 650})
				}
			}
		}
		return
	}
	for _, sq := range [][]string{{"L5000"}, {"L16383", "a"}, {"a", "L16384"}} {
		for _, cont := range c02Conts {
			c02EmitSplit(sq, cont, 256, 1024, emit)
		}
	}
}

func init() {
	kit.Register(&kit.Prop{
		ID:     "C02",
		Gen:    genC02,
		Run:    runC02,
		Decode: kit.DecodeAs[C02Case],
		Rule: "for every archive up to the bound in 4 containers (CARv1, CARv2 with index, padded CARv2 with index, CARv2 without index): " +
			"(1) the unmutated archive through every reader: exactly the original blocks in archive order from the iterating readers, from the loaders (LoadCar into a store) every block of the archive at least once and nothing else, in any order (compared after the scan); a block handed out by 2 further Next calls after the clean end must hash to its CID (that one is handed out at all is recorded as a beyond-statement outcome); Inspect(true) accepts; two root readers with overlapping lifetimes; " +
			"(2) EVERY single-bit flip of every block-data and CID-digest byte: reported by every verifying reader, nothing from the damaged section on returned by the iterating readers (a loader that delivers verified blocks from behind the damage and reports the damage at the end is recorded as a beyond-statement outcome); " +
			"(3) EVERY single-bit flip of every other byte of the block sections (section length, CID version/codec/hash code/digest length; with and without ZeroLengthSectionAsEOF), and of every byte before them (pragma, CARv2 header, padding, CARv1 header) on the empty archive and 3 one-block archives per container and root list: every block returned hashes to its CID and the blocks before the damage are the original ones (position by position for the iterating readers; for the loaders as a set, when no more blocks were delivered than precede the damage); " +
			"(4) EVERY proper prefix not ending on a section boundary, and for CARv2 EVERY header DataSize ending the payload at such an offset with the file complete, with and without ZeroLengthSectionAsEOF: reported as an error other than io.EOF by every scanning reader, only complete sections returned; " +
			"(5) archives holding a block whose hash function is not registered: never handed out, Inspect(true) fails; (6) 300-block and 1100-block archives with a fixed mutant set at the 4096-byte buffer boundaries, the 1000-block batch boundary and both ends. " +
			"readers = BlockReader.Next and SkipNext over 6 source kinds (bytes.Reader, Read-only stream, *os.File, Reader+ByteReader, data-with-EOF reader, one-byte reader), root CarReader (3 source kinds) / LoadCar (plain and batch store), internal carv1 reader (4 source kinds) / loader (plain and batch store), Inspect(true) over 3 io.ReaderAt kinds; " +
			"REDUCED MATRIX: the 7 (CARv1) / 2 (CARv2) original reader kinds and Inspect over bytes.Reader run on every mutant of every archive; the other source kinds run on every mutant of the archives with <=1 block and of the 300-block archive, and on the cuts inside the block sections of the two-block archives; CARv1 header cuts of three-block archives are skipped (byte-identical to those of shorter sequences); three-block archives: ZeroLengthSectionAsEOF=on only for cuts inside or up to one byte after a section length varint, digest/data flips in 3 of the 4 containers (not the index-less CARv2); " +
			"case = one archive (or one offset range of one mutant family of a large archive), executions = reader runs; non-trivial = archive with >=1 section",
		Bound: func(tier string) map[string]any {
			b := map[string]any{"containers": 4, "deviations": 1, "root_lists": "1 root everywhere; 3 roots (header > 127 bytes) on 3 sequences", "flips": "all bits of all digest, data, section-length and CID-prefix bytes; all bits of the header bytes on 4 archives per container and root list", "truncations": "all offsets x ZeroLengthSectionAsEOF{off,on}", "datasize": "all offsets x ZeroLengthSectionAsEOF{off,on}",
				"unknown_hash_archives": 24, "many_block_archives": "300 blocks x 3 containers, 1100 blocks x CARv1 (fixed mutant sets)"}
			if tier == "thorough" {
				b["seq_len"], b["alphabet"] = 3, 11
				b["large_sections"] = "L5000, L16383+a, a+L16384: all flips, all truncations, 4 containers"
			} else {
				b["seq_len"], b["alphabet"] = 2, 7
				b["large_sections"] = "L5000 in CARv1 and index-less CARv2: all truncations; flips of the data bytes in 4 windows (section start, buffer offset 4096 file- and section-relative, section end) - reduced matrix"
			}
			return b
		},
		Assumptions: []string{"refcar hashing (crypto/sha256, sha512, x/crypto/blake2b) is correct",
			"non-verifying paths (Inspect(false), index generation, AllKeysChan, TrustedCAR) are outside the property; SkipNext returns no block bytes and is only judged as a scanning reader (truncations, CIDs)",
			"a CARv2 truncated exactly on a payload section boundary is exempt, as the property states",
			"a CARv2 header whose DataSize ends the payload inside a section is treated as a truncation of the archive's block sections (the payload the readers are given is a proper prefix)",
			"flips outside digest/data bytes need not be reported (a flipped codec gives a different but valid block); a digest truncated to 0 bytes matches any data",
			"sources honour the io.Reader / io.ReaderAt contracts (data together with io.EOF and short reads are allowed by them)",
			"what a reader returns when called again after an ERROR is not constrained; after a clean end a block it hands out must still hash to its CID, that it hands one out is beyond the statement (outcome beyond-statement:block-after-eof)",
			"the statement does not fix how often a loader Puts a block the archive repeats, nor the order in which it hands blocks to Put/PutMany, nor that it stops delivering at the first damaged section: loaders are judged as sets, and blocks delivered from behind a reported damage are an outcome (beyond-statement:loader-delivers-behind-damage)",
			"a valid archive must be read completely by every reader (c02:valid-rejected): not stated by the property, kept as the non-vacuity condition of every mutant verdict"},
	})
}
