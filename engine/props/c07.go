package props

import (
	"bytes"
	"errors"
	"fmt"
	"strings"

	"github.com/ipld/go-car/v2/index"

	"verif/drv"
	"verif/kit"
	"verif/model"
	"verif/refcar"
)

type C07Case struct {
	Seq      []string `json:"seq"`
	Cont     string   `json:"cont"`     // see c07Layout
	Supplied string   `json:"supplied"` // "", mh, sorted
	Whole    bool     `json:"whole,omitempty"`
	StoreID  bool     `json:"storeid,omitempty"`
	ZeroEOF  bool     `json:"zeroeof,omitempty"`
	Front    string   `json:"front"`           // drv.RAKinds + drv.RAKindsX
	Roots    string   `json:"roots,omitempty"` // "" = ab; nil empty a a0 ab r4
	Hdr      string   `json:"hdr,omitempty"`   // "" = canonical header; "vr" = version key before the roots key
	Codec    string   `json:"codec,omitempty"` // UseIndexCodec given to the reader (generated index): "" | "sorted"
	Order    string   `json:"order,omitempty"` // "" = queries first; "l" = roots and listing first
}

// c07Lay describes a container kind.
type c07Lay struct {
	v2       bool
	dataPad  uint64
	idxPad   uint64
	embedded uint64 // codec of the embedded index, 0 = none
	noID     bool   // embedded index built without identity records (and not flagged fully indexed)
	zeros    int    // null padding after the sections (inside the payload window)
	tail     bool   // sections after the null padding
}

func (l c07Lay) null() bool { return l.zeros > 0 }

// c07TailSeq are the sections laid out after the null padding of the *-tail containers: one block
// that never occurs in front of the padding (c) and one that may (a).
var c07TailSeq = []string{"c", "a"}

func c07Layout(cont string) c07Lay {
	switch cont {
	case "v1":
		return c07Lay{}
	case "v1null":
		return c07Lay{zeros: 9}
	case "v1null-tail":
		return c07Lay{zeros: 9, tail: true}
	case "v2":
		return c07Lay{v2: true}
	case "v2pad":
		return c07Lay{v2: true, dataPad: 5}
	case "v2null":
		return c07Lay{v2: true, dataPad: 3, zeros: 4}
	case "v2null-tail":
		return c07Lay{v2: true, dataPad: 3, zeros: 4, tail: true}
	}
	if rest, ok := strings.CutPrefix(cont, "v2idx-"); ok {
		l := c07Lay{v2: true, dataPad: 5, idxPad: 3}
		kind, variant, _ := strings.Cut(rest, "-")
		switch kind {
		case "mh":
			l.embedded = refcar.CodecMhIndexSorted
		case "sorted":
			l.embedded = refcar.CodecIndexSorted
		default:
			panic("unknown container " + cont)
		}
		switch variant {
		case "":
		case "noid":
			l.noID = true
		case "null":
			l.zeros = 4
		default:
			panic("unknown container " + cont)
		}
		return l
	}
	panic("unknown container " + cont)
}

// c07Roots resolves the root set of a case ("" = the historical constant ab).
func c07Roots(name string) (raws [][]byte, isNil bool) {
	switch name {
	case "":
		name = "ab"
	case "r4":
		// four roots: the header body is >= 128 bytes, its length prefix a 2-byte varint
		for _, n := range []string{"a", "b", "c", "s"} {
			raws = append(raws, kit.B(n).Raw)
		}
		return raws, false
	}
	_, raws, isNil = kit.Roots(name)
	return raws, isNil
}

// c07Header is the length-prefixed CARv1 header in the requested shape.
func c07Header(roots [][]byte, nilRoots bool, shape string) []byte {
	body := refcar.EncodeHeaderBody(roots, nilRoots, 1)
	switch shape {
	case "":
	case "vr":
		// a2 | 65 "roots" <roots> | 67 "version" 01  ->  a2 | 67 "version" 01 | 65 "roots" <roots>
		const verLen = 1 + 7 + 1
		nb := []byte{body[0]}
		nb = append(nb, body[len(body)-verLen:]...)
		nb = append(nb, body[1:len(body)-verLen]...)
		body = nb
	default:
		panic("unknown header shape " + shape)
	}
	return append(refcar.PutUvarint(uint64(len(body))), body...)
}

// c07Build lays the archive out. pl is the reference front-to-back scan of the payload window
// (up to the null padding when there is one).
func c07Build(lay c07Lay, hdrShape string, roots [][]byte, nilRoots bool, blks []refcar.Block, storeID bool) (file []byte, pl *refcar.Payload) {
	window := c07Header(roots, nilRoots, hdrShape)
	for _, b := range blks {
		window = append(window, refcar.EncodeSection(b)...)
	}
	window = append(window, make([]byte, lay.zeros)...)
	if lay.tail {
		for _, b := range kit.Bs(c07TailSeq) {
			window = append(window, refcar.EncodeSection(b.Ref())...)
		}
	}
	pl, err := refcar.DecodePayload(window, lay.null(), true)
	if err != nil {
		panic(err)
	}
	if len(pl.Sections) != len(blks) || pl.NullPadded != lay.null() {
		panic("c07: reference scan does not see the sections laid out")
	}
	if !lay.v2 {
		return window, pl
	}
	var idx []byte
	fully := false
	if lay.embedded != 0 {
		withID := storeID && !lay.noID
		idx = refcar.EncodeIndex(lay.embedded, refcar.RecordsOf(pl, withID))
		fully = withID
	}
	return refcar.EncodeV2(window, lay.dataPad, lay.idxPad, idx, fully), pl
}

func runC07(c any, x *kit.Ctx) {
	cs := c.(C07Case)
	rootRaws, nilRoots := c07Roots(cs.Roots)
	blks := kit.Bs(cs.Seq)
	var rb []refcar.Block
	for _, b := range blks {
		rb = append(rb, b.Ref())
	}
	lay := c07Layout(cs.Cont)
	file, pl := c07Build(lay, cs.Hdr, rootRaws, nilRoots, rb, cs.StoreID)
	o := drv.Opts{Whole: cs.Whole, StoreID: cs.StoreID, ZeroEOF: cs.ZeroEOF, Codec: cs.Codec}
	tag := cs.Front + ":" + cs.Cont
	// Signature prefix. Two input classes have their own (see KNOWN_FINDINGS / report):
	//  - a backing ReaderAt that returns io.EOF together with the final byte, when that byte is read
	//    through ReadByte (the archive ends with the 4-byte section of the empty identity CID)
	//  - a backing whose Read position is not 0 when it is handed over (open fails)
	base := "c07:"
	if strings.HasSuffix(cs.Front, "-eofat") && bytes.HasSuffix(file, refcar.EncodeSection(kit.B("i0").Ref())) {
		base = "c07:eofat-final-byte:"
	}
	again := base + "again:"
	x.Eval(1)

	var idx index.Index
	if cs.Supplied != "" {
		sc := uint64(refcar.CodecMhIndexSorted)
		if cs.Supplied == "sorted" {
			sc = refcar.CodecIndexSorted
		}
		var err error
		idx, err = index.ReadFrom(bytes.NewReader(refcar.EncodeIndex(sc, refcar.RecordsOf(pl, cs.StoreID))))
		if err != nil {
			x.Fail(base+"supplied-index", "cannot load reference index: %v", err)
			return
		}
	}
	ra, err := drv.OpenRAX(cs.Front, x.Dir, file, o, idx)
	// lenientNull: null padding without ZeroLengthSectionAsEOF, but nothing scans the payload at
	// open (supplied or embedded index). The listing is the only walk over the padding.
	lenientNull := false
	if lay.null() && !cs.ZeroEOF {
		if cs.Supplied == "" && lay.embedded == 0 {
			// null padding without the option is outside the statement's configurations: whether
			// the open scans and refuses is documented behaviour, recorded but not asserted
			if err == nil {
				ra.Close()
				x.Outcome("beyond-statement:null-padding-accepted")
				return
			}
			x.Outcome("refused-null-padding")
			return
		}
		if err != nil {
			x.Outcome("refused-null-padding")
			return
		}
		lenientNull = true
	}
	if err != nil && lay.tail {
		// sections after the null padding are not null padding: the statement does not say that
		// such an archive has to be accepted (an accepted one must behave like the scan)
		x.Outcome("refused-data-after-padding")
		return
	}
	if err != nil && cs.Hdr != "" {
		// a header that is not canonical dag-cbor may be refused
		x.Outcome("refused-noncanonical-header")
		return
	}
	if err != nil {
		sig := base + "open:" + tag
		if strings.HasSuffix(cs.Front, "-pos") {
			sig = base + "open-position:" + tag
		}
		if cs.Supplied != "" {
			x.Fail(sig, "NewReadOnly with a supplied index fails on a valid archive: %v", err)
		} else {
			x.Fail(sig, "open fails on a valid archive: %v", err)
		}
		return
	}
	defer ra.Close()

	// the index in use
	// The statement is about the answers, not about the Index() accessor: which object it returns
	// is recorded only. That a supplied index is the one consulted is observable through the
	// answers (the *-noid containers: identity keys are found only through the supplied index).
	if got := drv.IndexOf(ra); got == nil {
		x.Outcome("beyond-statement:index-nil")
	} else if idx != nil && got != idx {
		x.Outcome("beyond-statement:supplied-index-replaced")
	}

	m := &model.Map{Cfg: model.Cfg{Whole: cs.Whole, StoreID: cs.StoreID, AllowDup: true}}
	for _, b := range blks {
		m.Stored = append(m.Stored, b)
	}
	var queries []kit.Blk
	for _, n := range kit.AlphaOrder {
		queries = append(queries, kit.B(n))
	}
	queries = append(queries, kit.Absent)
	extra := map[string]bool{}
	for _, n := range cs.Seq {
		if _, ok := kit.Alpha[n]; !ok && !extra[n] {
			extra[n] = true
			queries = append(queries, kit.B(n))
		}
	}

	var wantKeys [][]byte
	for _, s := range pl.Sections {
		if cs.Whole {
			wantKeys = append(wantKeys, s.Cid)
		} else {
			wantKeys = append(wantKeys, rawV1Key(s.Cid))
		}
	}

	// pfx is base for the first round of a kind of call and base+"again:" for later rounds, so
	// that an answer that only goes wrong after other calls has its own signature.
	doQueries := func(pfx string) {
		for _, q := range queries {
			x.Transition(3)
			ident := model.IsIdentity(q.Raw)
			cands := m.Find(q.Raw)
			has, herr := ra.Has(q.Cid)
			data, gerr := ra.Get(q.Cid)
			size, serr := ra.Size(q.Cid)
			if ident && !cs.StoreID {
				// IdStore behaviour: always present, content is the digest
				qi, _ := refcar.ParseCID(q.Raw)
				if herr != nil || !has {
					x.Fail(pfx+"identity-has:"+tag, "Has(%s)=%v,%v for an identity CID without StoreIdentityCIDs", q.Name, has, herr)
				}
				if gerr != nil || !bytes.Equal(data, qi.Digest) {
					x.Fail(pfx+"identity-get:"+tag, "Get(%s)=%x,%v want the digest", q.Name, data, gerr)
				}
				if serr != nil || size != len(qi.Digest) {
					x.Fail(pfx+"identity-size:"+tag, "GetSize(%s)=%d,%v want %d", q.Name, size, serr, len(qi.Digest))
				}
				continue
			}
			if len(cands) == 0 {
				if herr != nil || has {
					x.Fail(pfx+"has-absent:"+tag, "Has(%s)=%v,%v but no section carries that key", q.Name, has, herr)
				}
				if gerr == nil {
					x.Fail(pfx+"get-absent:"+tag, "Get(%s) returned %x but no section carries that key", q.Name, clip(data))
				} else if !isNotFound(gerr) {
					x.Outcome("beyond-statement:absent-error-kind") // the statement does not fix the kind of error
				}
				if !(ident && drv.IsBlockstoreKind(cs.Front)) { // GetSize of an identity CID never consults the archive (documented)
					if serr == nil {
						x.Fail(pfx+"size-absent:"+tag, "GetSize(%s)=%d but no section carries that key", q.Name, size)
					} else if !isNotFound(serr) {
						x.Outcome("beyond-statement:absent-error-kind")
					}
				}
				continue
			}
			if herr != nil || !has {
				x.Fail(pfx+"has-present:"+tag, "Has(%s)=%v,%v but a section carries that key", q.Name, has, herr)
			}
			okData, okSize := false, false
			for _, cnd := range cands {
				if bytes.Equal(cnd.Data, data) {
					okData = true
				}
				if len(cnd.Data) == size {
					okSize = true
				}
			}
			if gerr != nil || !okData {
				x.Fail(pfx+"get-present:"+tag, "Get(%s)=%x,%v is not the data of a section carrying that key", q.Name, clip(data), gerr)
			}
			if serr != nil || !okSize {
				x.Fail(pfx+"size-present:"+tag, "GetSize(%s)=%d,%v is not the size of a section carrying that key", q.Name, size, serr)
			}
		}
	}
	doRoots := func(pfx string) {
		x.Transition(1)
		rs, err := ra.Roots()
		if err != nil || !sameRoots(rs, rootRaws) {
			x.Fail(pfx+"roots:"+tag, "Roots()=%x,%v want %x", rs, err, rootRaws)
		}
	}
	doListing := func(pfx string) {
		keys, err := ra.Keys()
		if err == drv.ErrNoListing {
			return
		}
		x.Transition(1)
		if lenientNull {
			// The walk meets a zero-length section that the configuration does not allow. The
			// statement quantifies null padding only together with ZeroLengthSectionAsEOF: what the
			// listing delivers here and whether the async error handler is called is documented
			// behaviour, recorded but not asserted.
			if !sameRoots(keys, wantKeys) {
				x.Outcome("beyond-statement:null-listing-keys")
			}
			if err == nil {
				x.Outcome("beyond-statement:null-listing-silent")
			}
			return
		}
		if lay.tail && err != nil && len(keys) <= len(wantKeys) && sameRoots(keys, wantKeys[:len(keys)]) {
			// data after the null padding (not null padding, see the open): a listing that delivers
			// scan keys and then refuses the archive is not contradicted by the statement
			x.Outcome("beyond-statement:listing-refused-data-after-padding")
			return
		}
		if err != nil || !sameRoots(keys, wantKeys) {
			x.Fail(pfx+"listing:"+tag, "AllKeysChan=%x,%v want scan order %x", keys, err, wantKeys)
		}
	}
	// a listing that is cancelled after `take` keys: what was delivered is a prefix of the scan
	// and at least `take` keys long (or complete)
	doCancelled := func() {
		take := 1
		if len(wantKeys) > 10 {
			take = 2 // the producer is blocked on the full channel buffer when the context is cancelled
		}
		keys, _, ok, err := drv.KeysCancel(ra, take)
		if !ok {
			return
		}
		x.Transition(1)
		if err != nil {
			x.Fail(base+"listing-cancel-error:"+tag, "AllKeysChan failed: %v", err)
			return
		}
		atLeast := take
		if len(wantKeys) < atLeast {
			atLeast = len(wantKeys)
		}
		if len(keys) < atLeast || len(keys) > len(wantKeys) || !sameRoots(keys, wantKeys[:len(keys)]) {
			x.Fail(base+"listing-cancel:"+tag, "AllKeysChan cancelled after %d keys delivered %x: not a prefix (of >= %d keys) of the scan order %x", take, keys, atLeast, wantKeys)
		}
	}

	switch cs.Order {
	case "":
		doQueries(base)
		doRoots(base)
		doListing(base)
		doRoots(again)
		doListing(again)
		doQueries(again)
		doCancelled()
		doListing(again)
	case "l":
		doRoots(base)
		doListing(base)
		doQueries(base)
		doCancelled()
		doListing(again)
		doRoots(again)
		doQueries(again)
	default:
		panic("unknown order " + cs.Order)
	}

	x.State(fmt.Sprintf("%x|%v|%v|%s|%s", file, cs.Whole, cs.StoreID, cs.Supplied, cs.Codec))
	if lenientNull {
		x.Outcome(fmt.Sprintf("null-unscanned-sections=%d", c07Clamp(len(pl.Sections))))
	} else {
		x.Outcome(fmt.Sprintf("sections=%d", c07Clamp(len(pl.Sections))))
	}
	if len(pl.Sections) >= 2 {
		x.Nontrivial(fmt.Sprintf("%+v", cs))
	}
}

func c07Clamp(n int) int {
	if n > 4 {
		return 5
	}
	return n
}

func isNotFound(err error) bool {
	var nf interface{ NotFound() bool }
	if errors.As(err, &nf) {
		return nf.NotFound()
	}
	return false
}

// ---------------------------------------------------------------- enumeration

type c07Shape struct{ Roots, Hdr string }

// c07Block is one fully enumerated product: seqs x conts x shapes x UseWholeCIDs x StoreIdentityCIDs x
// ZeroLengthSectionAsEOF (where meaningful) x orders x (codecs x fronts  +  supplied fronts x {mh, sorted}).
type c07Block struct {
	seqs      [][]string
	conts     []string
	shapes    []c07Shape
	orders    []string
	codecs    []string // UseIndexCodec values for the index-less containers ("" = default)
	fronts    []string
	supFronts []string // front-ends that are (also) given a supplied index
	supCodecs []string
}

func (b c07Block) emit(emit func(any)) {
	for _, sq := range b.seqs {
		for _, cont := range b.conts {
			lay := c07Layout(cont)
			for _, sh := range b.shapes {
				for _, whole := range []bool{false, true} {
					for _, sid := range []bool{false, true} {
						if lay.noID && !sid {
							continue // the variant exists to tell the supplied index from the embedded one under StoreIdentityCIDs
						}
						for _, z := range []bool{false, true} {
							if z && !lay.null() && cont != "v1" {
								continue
							}
							for _, ord := range b.orders {
								cs := C07Case{Seq: sq, Cont: cont, Whole: whole, StoreID: sid, ZeroEOF: z, Roots: sh.Roots, Hdr: sh.Hdr, Order: ord}
								for _, codec := range b.codecs {
									if lay.noID {
										break // reader with StoreIdentityCIDs over an embedded index without identity records: left open by the documentation
									}
									if codec != "" && lay.embedded != 0 {
										continue // nothing is generated
									}
									for _, front := range b.fronts {
										if codec != "" && !drv.IsBlockstoreKind(front) {
											continue // the storage always loads an insertion index
										}
										c := cs
										c.Front, c.Codec = front, codec
										emit(c)
									}
								}
								for _, front := range b.supFronts {
									for _, sup := range b.supCodecs {
										c := cs
										c.Front, c.Supplied = front, sup
										emit(c)
									}
								}
							}
						}
					}
				}
			}
		}
	}
}

var (
	c07BaseConts  = []string{"v1", "v2", "v2pad", "v2idx-mh", "v2idx-sorted", "v1null", "v2null"}
	c07NewConts   = []string{"v2idx-mh-null", "v2idx-sorted-null", "v1null-tail", "v2null-tail", "v2idx-mh-noid", "v2idx-sorted-noid"}
	c07GenConts   = []string{"v1", "v2", "v2pad", "v1null", "v2null", "v1null-tail", "v2null-tail"} // containers whose index is generated at open
	c07Default    = []c07Shape{{}}
	c07Shapes     = []c07Shape{{Roots: "nil"}, {Roots: "empty"}, {Roots: "a"}, {Roots: "a0"}, {Roots: "r4"}, {Hdr: "vr"}, {Roots: "r4", Hdr: "vr"}}
	c07SupFronts  = []string{"ro-new", "ro-new-at", "ro-new-file", "ro-new-eofat"}
	c07BothCodecs = []string{"mh", "sorted"}
	c07BothOrders = []string{"", "l"}
)

func c07AllFronts() []string {
	return append(append([]string{}, drv.RAKinds...), drv.RAKindsX...)
}

// c07BigSeq: 44 sections (more than the listing channel buffers, 42 records in one index bucket)
// with the hash-equal family a, a', a0 and a duplicate in the middle.
func c07BigSeq() []string {
	many := kit.ManyNames(40)
	out := append([]string{}, many[:20]...)
	out = append(out, "a", "a'", "a0", "a")
	return append(out, many[20:]...)
}

func c07SpecialSeqs() [][]string {
	return [][]string{{"a", "a", "a"}, {"a", "ia", "a'", "a0"}, {"L128", "a", "L16384", "a"}, {"ip1", "ip2"}, {"ip1", "k", "a", "ip2"},
		{"a", "i0"}, {"k", "a"}, c07BigSeq()}
}

func genC07(tier string, emit func(any)) {
	names := []string{"a", "b", "a'", "a0", "ia", "i", "s", "t", "e"}
	maxLen := 2
	if tier == "thorough" {
		names = append(names, "k", "i0")
		maxLen = 3
	}
	var tiny, short, long [][]string // length <= 1, length <= 2, length 3
	kit.Seqs(names, maxLen, func(s []string) {
		if len(s) <= 1 {
			tiny = append(tiny, s)
		}
		if len(s) <= 2 {
			short = append(short, s)
		} else {
			long = append(long, s)
		}
	})
	special := c07SpecialSeqs()
	tinySpecial := append(append([][]string{}, tiny...), special...)
	shortSpecial := append(append([][]string{}, short...), special...)
	fronts := c07AllFronts()
	def := []string{""}
	allConts := append(append([]string{}, c07BaseConts...), c07NewConts...)

	if tier == "thorough" {
		// 1. historical containers, default header; length-3 sequences in the queries-first order only
		c07Block{seqs: shortSpecial, conts: c07BaseConts, shapes: c07Default, orders: c07BothOrders, codecs: def, fronts: fronts, supFronts: c07SupFronts, supCodecs: c07BothCodecs}.emit(emit)
		c07Block{seqs: long, conts: c07BaseConts, shapes: c07Default, orders: def, codecs: def, fronts: fronts, supFronts: c07SupFronts, supCodecs: c07BothCodecs}.emit(emit)
		// 2. embedded index + null padding, sections after the padding, embedded index without identity records
		c07Block{seqs: shortSpecial, conts: c07NewConts, shapes: c07Default, orders: c07BothOrders, codecs: def, fronts: fronts, supFronts: c07SupFronts, supCodecs: c07BothCodecs}.emit(emit)
		// 3. generated index of the plain sorted codec
		c07Block{seqs: shortSpecial, conts: c07GenConts, shapes: c07Default, orders: c07BothOrders, codecs: []string{"sorted"}, fronts: fronts}.emit(emit)
		// 4. header shapes x special sequences
		c07Block{seqs: special, conts: allConts, shapes: c07Shapes, orders: c07BothOrders, codecs: def, fronts: fronts, supFronts: c07SupFronts, supCodecs: c07BothCodecs}.emit(emit)
		return
	}
	// quick: the same dimensions over reduced matrices
	c07Block{seqs: shortSpecial, conts: c07BaseConts, shapes: c07Default, orders: def, codecs: def, fronts: fronts, supFronts: c07SupFronts, supCodecs: c07BothCodecs}.emit(emit)
	c07Block{seqs: tinySpecial, conts: c07BaseConts, shapes: c07Default, orders: []string{"l"}, codecs: def, fronts: fronts, supFronts: c07SupFronts, supCodecs: c07BothCodecs}.emit(emit)
	c07Block{seqs: tinySpecial, conts: c07NewConts, shapes: c07Default, orders: c07BothOrders, codecs: def, fronts: fronts, supFronts: c07SupFronts, supCodecs: c07BothCodecs}.emit(emit)
	c07Block{seqs: tinySpecial, conts: c07GenConts, shapes: c07Default, orders: c07BothOrders, codecs: []string{"sorted"}, fronts: fronts}.emit(emit)
	c07Block{seqs: special, conts: []string{"v1", "v2pad", "v2idx-mh", "v1null", "v2idx-sorted-null"}, shapes: c07Shapes, orders: def, codecs: def, fronts: fronts, supFronts: []string{"ro-new"}, supCodecs: []string{"mh"}}.emit(emit)
}

func init() {
	kit.Register(&kit.Prop{
		ID:     "C07",
		Gen:    genC07,
		Run:    runC07,
		Decode: kit.DecodeAs[C07Case],
		Rule: "archives laid out by the reference encoder, every case opened on the real implementation and compared with the reference front-to-back scan. " +
			"Dimensions: block sequence (all sequences up to the bound + 8 special ones: duplicates, the hash-equal family a/a'/a0/ia, sections crossing the 1/2/3-byte length varint, late-differing identity digests, a trailing 4-byte identity section, blake2b, and a 44-section archive = more than the listing channel buffers with 42 records in one index bucket); " +
			"container {CARv1, CARv2 plain/padded/with embedded index of either codec, null padding after the sections (v1, v2, v2 with embedded index), sections after the null padding, embedded index without identity records next to a supplied one with them}; " +
			"header shape {roots nil(null), empty, a, a0 (CIDv0), ab, 4 roots (body >= 128 bytes, 2-byte length varint)} x {canonical, version key before roots key (may be refused)}; " +
			"options UseWholeCIDs x StoreIdentityCIDs x ZeroLengthSectionAsEOF (with null padding and on CARv1) x UseIndexCodec(IndexSorted) for generated indexes; " +
			"index source {embedded, generated, supplied mh/sorted (which object Index() returns is recorded as beyond-statement outcome, not asserted)}; " +
			"front-end {NewReadOnly, OpenReadable} x backing {bytes.Reader, ReaderAt-only, *os.File, ReaderAt returning io.EOF with the final bytes, bytes.Reader with a non-zero Read position} + OpenReadOnly (mmap); supplied indexes over the first four NewReadOnly backings; " +
			"call order {queries, roots, listing, roots, listing, queries, cancelled listing, listing} and {roots, listing, queries, cancelled listing, listing, roots, queries} (repeated calls have their own c07:again: signatures). " +
			"Queries: every alphabet CID, an absent one and every block of the sequence (Has, Get, GetSize resp. Get+GetStream). " +
			"Null padding without ZeroLengthSectionAsEOF is outside the statement's configurations: a refusal at open ends the case; an accepted open (supplied/embedded index) has its queries compared with the sections in front of the padding, while an open that scans and accepts, the keys of the listing and the call of the async error handler are recorded as beyond-statement outcomes only. " +
			"Sections after the null padding: a refusal at open (or a listing that delivers a prefix of the scan keys and then reports an error) is accepted, an accepted archive must behave like the scan. " +
			"An absent key must make Get/GetSize fail; the kind of error is recorded (beyond-statement:absent-error-kind), not asserted. " +
			"A cancelled listing must deliver a prefix of the scan order. " +
			"thorough: full product for sequences of length <= 2 and the special ones; length-3 sequences with the 7 historical containers in the queries-first order; new containers and IndexSorted generation over length <= 2 + special; header shapes x special sequences x all containers. " +
			"quick: length <= 2 + special x historical containers x all front-ends/supplied indexes in the queries-first order; listing-first order, new containers and IndexSorted generation over length <= 1 + special; header shapes x special sequences x 5 containers x all front-ends (+ one supplied index). non-trivial = >=2 sections",
		Bound: func(tier string) map[string]any {
			b := map[string]any{"special_seqs": 8, "big_seq_sections": 44, "containers": 13, "header_shapes": 8, "front_ends": 11, "supplied_index_front_ends": 4, "call_orders": 2}
			if tier == "thorough" {
				b["seq_len"], b["alphabet"] = 3, 11
			} else {
				b["seq_len"], b["alphabet"] = 2, 9
			}
			return b
		},
		Assumptions: []string{"refcar layout is correct",
			"embedded/supplied indexes contain identity entries exactly when the reader's StoreIdentityCIDs is on (the documentation leaves the mismatching combination open); the only mismatch enumerated is an embedded index without identity records that must be ignored in favour of a supplied index with them",
			"GetSize of an identity CID on the blockstore never consults the archive (documented), so it is not compared for absent identity keys",
			"all hash-equal blocks of a valid archive carry equal bytes, so which of several sections carrying a key was served is not observable (and not constrained by the statement)",
			"a header with the version key first is not canonical dag-cbor: a refusal at open is accepted, an accepted one must behave like the scan",
			"after a zero-length section under ZeroLengthSectionAsEOF the scan has ended: later sections are not part of the archive (an implementation that refuses data after the padding is accepted as well)",
			"identity CIDs without StoreIdentityCIDs are answered as documented (always present, content = digest) rather than by the literal 'present iff some section carries it' of the statement",
			"the number of keys a cancelled listing delivers is scheduling dependent; only the prefix property is asserted"},
	})
}
