package props

import (
	"bytes"
	"errors"
	"fmt"
	"strings"

	"github.com/ipld/go-car/v2/blockstore"
	"github.com/ipld/go-car/v2/index"

	"verif/drv"
	"verif/kit"
	"verif/model"
	"verif/refcar"
)

type C07Case struct {
	Seq      []string `json:"seq"`
	Cont     string   `json:"cont"`     // v1 v1null v2 v2pad v2null v2idx-mh v2idx-sorted
	Supplied string   `json:"supplied"` // "", mh, sorted
	Whole    bool     `json:"whole,omitempty"`
	StoreID  bool     `json:"storeid,omitempty"`
	ZeroEOF  bool     `json:"zeroeof,omitempty"`
	Front    string   `json:"front"` // ro-new ro-new-at ro-open st-open st-open-at
}

func runC07(c any, x *kit.Ctx) {
	cs := c.(C07Case)
	_, rootRaws, _ := kit.Roots("ab")
	blks := kit.Bs(cs.Seq)
	var rb []refcar.Block
	for _, b := range blks {
		rb = append(rb, b.Ref())
	}
	cont := cs.Cont
	codec := uint64(refcar.CodecMhIndexSorted)
	if cont == "v2idx-sorted" {
		codec = refcar.CodecIndexSorted
	}
	if strings.HasPrefix(cont, "v2idx") {
		cont = "v2idx"
	}
	file, payload := buildContainer(cont, rootRaws, rb, cs.StoreID, codec)
	pl, err := refcar.DecodePayload(payload, false, true)
	if err != nil {
		panic(err)
	}
	o := drv.Opts{Whole: cs.Whole, StoreID: cs.StoreID, ZeroEOF: cs.ZeroEOF}
	tag := cs.Front + ":" + cs.Cont
	x.Eval(1)

	var ra drv.RA
	if cs.Supplied != "" {
		sc := uint64(refcar.CodecMhIndexSorted)
		if cs.Supplied == "sorted" {
			sc = refcar.CodecIndexSorted
		}
		idx, err := index.ReadFrom(bytes.NewReader(refcar.EncodeIndex(sc, refcar.RecordsOf(pl, cs.StoreID))))
		if err != nil {
			x.Fail("c07:supplied-index", "cannot load reference index: %v", err)
			return
		}
		bs, err := blockstore.NewReadOnly(bytes.NewReader(file), idx, o.List()...)
		if err != nil {
			x.Fail("c07:open:"+tag, "NewReadOnly with a supplied index fails on a valid archive: %v", err)
			return
		}
		ra = drv.WrapBS(bs)
	} else {
		ra, err = drv.OpenRA(cs.Front, x.Dir, file, o)
		nullPadded := cs.Cont == "v1null" || cs.Cont == "v2null"
		if nullPadded && !cs.ZeroEOF {
			if err == nil {
				x.Fail("c07:null-padding-accepted:"+tag, "archive with null padding opened without ZeroLengthSectionAsEOF")
			}
			x.Outcome("refused-null-padding")
			return
		}
		if err != nil {
			x.Fail("c07:open:"+tag, "open fails on a valid archive: %v", err)
			return
		}
	}
	defer ra.Close()

	m := &model.Map{Cfg: model.Cfg{Whole: cs.Whole, StoreID: cs.StoreID, AllowDup: true}}
	for _, b := range blks {
		m.Stored = append(m.Stored, b)
	}
	var queries []kit.Blk
	for _, n := range kit.AlphaOrder {
		queries = append(queries, kit.B(n))
	}
	queries = append(queries, kit.Absent)
	for _, q := range queries {
		x.Transition(3)
		ident := model.IsIdentity(q.Raw)
		cands := m.Find(q.Raw)
		has, herr := ra.Has(q.Cid)
		data, gerr := ra.Get(q.Cid)
		size, serr := ra.Size(q.Cid)
		if ident && !cs.StoreID {
			// IdStore behaviour: always present, content is the digest
			qi, _ := refcar.ParseCID(q.Raw)
			if herr != nil || !has {
				x.Fail("c07:identity-has:"+tag, "Has(%s)=%v,%v for an identity CID without StoreIdentityCIDs", q.Name, has, herr)
			}
			if gerr != nil || !bytes.Equal(data, qi.Digest) {
				x.Fail("c07:identity-get:"+tag, "Get(%s)=%x,%v want the digest", q.Name, data, gerr)
			}
			if serr != nil || size != len(qi.Digest) {
				x.Fail("c07:identity-size:"+tag, "GetSize(%s)=%d,%v want %d", q.Name, size, serr, len(qi.Digest))
			}
			continue
		}
		if len(cands) == 0 {
			if herr != nil || has {
				x.Fail("c07:has-absent:"+tag, "Has(%s)=%v,%v but no section carries that key", q.Name, has, herr)
			}
			if gerr == nil {
				x.Fail("c07:get-absent:"+tag, "Get(%s) returned %x but no section carries that key", q.Name, clip(data))
			} else if !isNotFound(gerr) {
				x.Fail("c07:get-absent-error:"+tag, "Get(%s) of an absent key returned %v, not a not-found error", q.Name, gerr)
			}
			if !(ident && strings.HasPrefix(cs.Front, "ro")) { // GetSize of an identity CID never consults the archive (documented)
				if serr == nil {
					x.Fail("c07:size-absent:"+tag, "GetSize(%s)=%d but no section carries that key", q.Name, size)
				}
			}
			continue
		}
		if herr != nil || !has {
			x.Fail("c07:has-present:"+tag, "Has(%s)=%v,%v but a section carries that key", q.Name, has, herr)
		}
		okData, okSize := false, false
		for _, cnd := range cands {
			if bytes.Equal(cnd.Data, data) {
				okData = true
			}
			if len(cnd.Data) == size {
				okSize = true
			}
		}
		if gerr != nil || !okData {
			x.Fail("c07:get-present:"+tag, "Get(%s)=%x,%v is not the data of a section carrying that key", q.Name, clip(data), gerr)
		}
		if serr != nil || !okSize {
			x.Fail("c07:size-present:"+tag, "GetSize(%s)=%d,%v is not the size of a section carrying that key", q.Name, size, serr)
		}
	}
	rs, err := ra.Roots()
	if err != nil || !sameRoots(rs, rootRaws) {
		x.Fail("c07:roots:"+tag, "Roots()=%x,%v want %x", rs, err, rootRaws)
	}
	keys, err := ra.Keys()
	if err != drv.ErrNoListing {
		var want [][]byte
		for _, s := range pl.Sections {
			if cs.Whole {
				want = append(want, s.Cid)
			} else {
				want = append(want, rawV1Key(s.Cid))
			}
		}
		if err != nil || !sameRoots(keys, want) {
			x.Fail("c07:listing:"+tag, "AllKeysChan=%x,%v want scan order %x", keys, err, want)
		}
	}
	x.State(fmt.Sprintf("%x|%v|%v|%s", file, cs.Whole, cs.StoreID, cs.Supplied))
	x.Outcome(fmt.Sprintf("sections=%d", len(pl.Sections)))
	if len(pl.Sections) >= 2 {
		x.Nontrivial(fmt.Sprintf("%+v", cs))
	}
}

func isNotFound(err error) bool {
	var nf interface{ NotFound() bool }
	if errors.As(err, &nf) {
		return nf.NotFound()
	}
	return false
}

func genC07(tier string, emit func(any)) {
	names := []string{"a", "b", "a'", "a0", "ia", "i", "s", "t", "e"}
	maxLen := 2
	if tier == "thorough" {
		names = append(names, "k", "i0")
		maxLen = 3
	}
	var seqs [][]string
	kit.Seqs(names, maxLen, func(s []string) { seqs = append(seqs, s) })
	seqs = append(seqs, []string{"a", "a", "a"}, []string{"a", "ia", "a'", "a0"}, []string{"L128", "a", "L16384", "a"}, []string{"ip1", "ip2"}, []string{"ip1", "k", "a", "ip2"})
	conts := []string{"v1", "v2", "v2pad", "v2idx-mh", "v2idx-sorted", "v1null", "v2null"}
	for _, sq := range seqs {
		for _, cont := range conts {
			null := cont == "v1null" || cont == "v2null"
			for _, whole := range []bool{false, true} {
				for _, sid := range []bool{false, true} {
					for _, z := range []bool{false, true} {
						if z && !null && cont != "v1" {
							continue
						}
						for _, front := range drv.RAKinds {
							emit(C07Case{Seq: sq, Cont: cont, Whole: whole, StoreID: sid, ZeroEOF: z, Front: front})
						}
						if !null || z {
							for _, sup := range []string{"mh", "sorted"} {
								emit(C07Case{Seq: sq, Cont: cont, Supplied: sup, Whole: whole, StoreID: sid, ZeroEOF: z, Front: "ro-new"})
							}
						}
					}
				}
			}
		}
	}
}

func init() {
	kit.Register(&kit.Prop{
		ID:     "C07",
		Gen:    genC07,
		Run:    runC07,
		Decode: kit.DecodeAs[C07Case],
		Rule: "every archive up to the bound laid out by the reference encoder (CARv1, CARv2 without index/padded/with embedded index of either codec, null padding) x supplied index {none, either codec} x UseWholeCIDs x StoreIdentityCIDs x ZeroLengthSectionAsEOF x " +
			"front-end {NewReadOnly over bytes and ReaderAt-only, OpenReadOnly (mmap), OpenReadable over bytes and ReaderAt-only}; every alphabet CID and an absent one are queried (Has, Get, GetSize/GetStream), listing and roots compared with the reference scan; non-trivial = >=2 sections",
		Bound: func(tier string) map[string]any {
			if tier == "thorough" {
				return map[string]any{"seq_len": 3, "alphabet": 11}
			}
			return map[string]any{"seq_len": 2, "alphabet": 9}
		},
		Assumptions: []string{"refcar layout is correct", "embedded/supplied indexes contain identity entries exactly when the reader's StoreIdentityCIDs is on (the documentation leaves the mismatching combination open)", "GetSize of an identity CID on the blockstore never consults the archive (documented), so it is not compared for absent identity keys"},
	})
}
