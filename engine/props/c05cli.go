package props

import (
	"bytes"
	"fmt"
	"os"
	"path/filepath"
	"strings"

	"verif/drv"
	"verif/kit"
	"verif/model"
	"verif/refcar"
)

// c05Trees are the sources of `car create` (files "a"/"b" get equal content: de-duplication).
var c05Trees = map[string][]C18Node{
	"emptydir": {},
	"file0":    {{Name: "zero", Kind: "f", Size: 0}},
	"file":     {{Name: "one", Kind: "f", Size: 100}},
	"chunks":   {{Name: "big", Kind: "f", Size: 2*c18Chunk + 88000}},
	"tree": {
		{Name: "a", Kind: "f", Size: 10},
		{Name: "b", Kind: "f", Size: 10},
		{Name: "sub", Kind: "d", Kids: []C18Node{{Name: "deep", Kind: "f", Size: 130}, {Name: "lnk", Kind: "l", Target: "deep"}}},
		{Name: "void", Kind: "d"},
	},
}
var c05TreeOrder = []string{"emptydir", "file0", "file", "chunks", "tree"}

// c05Pre are the finalized CARv2 files `car filter --append` resumes: root "c" unless stated.
var c05PreOrder = []string{"c", "c:sorted", "c:ipad", "c:noidx", "c-L128", "none", "a"}

func c05PreFile(name string) (file []byte, rootRaws [][]byte, blks []kit.Blk) {
	root := "c"
	switch name {
	case "c", "c:sorted", "c:ipad", "c:noidx":
		blks = kit.Bs([]string{"c"})
	case "c-L128":
		blks = kit.Bs([]string{"c", "L128"})
	case "none":
	case "a":
		root = "a"
		blks = kit.Bs([]string{"a"})
	default:
		panic("unknown pre-existing layout " + name)
	}
	rootRaws = [][]byte{kit.B(root).Raw}
	var rb []refcar.Block
	for _, b := range blks {
		rb = append(rb, b.Ref())
	}
	payload := refcar.EncodeV1(rootRaws, false, rb)
	pl, err := refcar.DecodePayload(payload, false, true)
	if err != nil {
		panic(err)
	}
	recs := refcar.RecordsOf(pl, false)
	switch name {
	case "c:sorted":
		file = refcar.EncodeV2(payload, 0, 0, refcar.EncodeIndex(refcar.CodecIndexSorted, recs), false)
	case "c:ipad":
		file = refcar.EncodeV2(payload, 0, 5, refcar.EncodeIndex(refcar.CodecMhIndexSorted, recs), false)
	case "c:noidx":
		file = refcar.EncodeV2(payload, 0, 0, nil, false)
	default:
		file = refcar.EncodeV2(payload, 0, 0, refcar.EncodeIndex(refcar.CodecMhIndexSorted, recs), false)
	}
	return
}

func c05Container(cont string, payload []byte) []byte {
	pl, err := refcar.DecodePayload(payload, false, true)
	if err != nil {
		panic(err)
	}
	switch cont {
	case "v1":
		return payload
	case "v2":
		return refcar.EncodeV2(payload, 0, 0, refcar.EncodeIndex(refcar.CodecMhIndexSorted, refcar.RecordsOf(pl, false)), false)
	case "v2pad":
		return refcar.EncodeV2(payload, 3, 2, refcar.EncodeIndex(refcar.CodecIndexSorted, refcar.RecordsOf(pl, false)), false)
	case "v2noidx":
		return refcar.EncodeV2(payload, 0, 0, nil, false)
	}
	panic("unknown container " + cont)
}

// runC05CLI runs one CLI producer and applies the C05 oracle to its output. The CLI producers
// take no padding/codec/identity options: data padding 0, index padding 0, default codec,
// identity CIDs not stored.
func runC05CLI(cs C05Case, x *kit.Ctx) {
	cl := cs.CLI
	work := filepath.Join(x.Dir, "c05cli")
	os.RemoveAll(work)
	if err := os.MkdirAll(work, 0o755); err != nil {
		panic(err)
	}
	defer os.RemoveAll(work)
	ver := "2"
	tag := "v2"
	if cl.V1 {
		ver, tag = "1", "v1"
	}
	tag = "cli-" + cl.Cmd + ":" + tag
	x.Eval(1)
	x.Transition(2)
	var wantRoots [][]byte
	var stored []refcar.Block
	// altStored: other section lists the statement equally allows (chosen by the output's payload)
	var altStored [][]refcar.Block
	// rootsFromInput (filter without --append): every root of the output must be a root of the
	// input; WHICH of them the CLI keeps is its own semantics, not the statement's
	var rootsFromInput [][]byte
	anyOrder := false // get-dag: the traversal order is the CLI's own semantics
	fromOutput := false
	switch cl.Cmd {
	case "create":
		src := filepath.Join(work, "src")
		if err := os.MkdirAll(src, 0o755); err != nil {
			panic(err)
		}
		c18Materialise(src, c05Trees[cl.Tree])
		args := []string{"create", "--version", ver, "-f", "out.car"}
		if cl.NoWrap {
			args = append(args, "--no-wrap")
		}
		args = append(args, "src")
		if r := drv.Car(work, nil, args...); r.Exit != 0 {
			x.Fail("c05:cli-failed:"+tag, "car create failed (exit %d): %s", r.Exit, clipS(string(r.Stderr), 400))
			return
		}
		fromOutput = true
	case "filter":
		_, rootRaws, _ := kit.Roots(cs.Roots)
		blks := kit.Bs(cs.Seq)
		var rb []refcar.Block
		for _, b := range blks {
			rb = append(rb, b.Ref())
		}
		in := c05Container(cl.Cont, refcar.EncodeV1(rootRaws, false, rb))
		os.WriteFile(filepath.Join(work, "in.car"), in, 0o644)
		selected := map[string]bool{}
		var lines []string
		switch cl.Sel {
		case "all", "inverse-all":
			for _, b := range blks {
				selected[string(b.Raw)] = true
			}
		case "none":
		case "half", "inverse":
			for i, b := range blks {
				if i%2 == 0 {
					selected[string(b.Raw)] = true
				}
			}
			selected[string(kit.Absent.Raw)] = true
		default:
			panic("unknown selection " + cl.Sel)
		}
		for s := range selected {
			lines = append(lines, cidStr([]byte(s)))
		}
		os.WriteFile(filepath.Join(work, "cids.txt"), []byte(strings.Join(lines, "\n")+"\n"), 0o644)
		inverse := strings.HasPrefix(cl.Sel, "inverse")
		args := []string{"filter", "--cid-file", "cids.txt", "--version", ver}
		if inverse {
			args = append(args, "--inverse")
		}
		// the CLI chooses the de-duplication key of its output store (multihash today; the filter
		// itself selects by whole CID): both are modelled, the output decides
		m := &model.Map{}
		mw := &model.Map{Cfg: model.Cfg{Whole: true}}
		var preRoots [][]byte
		if cl.Append != "" {
			pre, pr, pb := c05PreFile(cl.Append)
			os.WriteFile(filepath.Join(work, "out.car"), pre, 0o644)
			preRoots = pr
			m.Stored = append(m.Stored, pb...)
			mw.Stored = append(mw.Stored, pb...)
			args = append(args, "--append")
		}
		args = append(args, "in.car", "out.car")
		if r := drv.Car(work, nil, args...); r.Exit != 0 {
			x.Fail("c05:cli-failed:"+tag, "car filter failed (exit %d): %s", r.Exit, clipS(string(r.Stderr), 400))
			return
		}
		for _, b := range blks {
			if selected[string(b.Raw)] != inverse {
				m.Put(b)
				mw.Put(b)
			}
		}
		stored = m.RefBlocks()
		altStored = append(altStored, mw.RefBlocks())
		wantRoots = [][]byte{}
		if cl.Append != "" {
			wantRoots = preRoots
		} else {
			rootsFromInput = rootRaws
			for _, rt := range rootRaws {
				if selected[string(rt)] != inverse {
					wantRoots = append(wantRoots, rt)
				}
			}
		}
	case "get-dag":
		b := &ufsBuilder{}
		f1 := b.file([]byte("file one"))
		f2 := b.file([]byte("file two"))
		sub := b.dir([]pbLink{{Name: "x", Cid: f1, Size: 8}, {Name: "y", Cid: f2, Size: 8}})
		root := b.dir([]pbLink{{Name: "again", Cid: f1, Size: 8}, {Name: "sub", Cid: sub, Size: 30}})
		b.file([]byte("unrelated"))
		all := b.blocks
		if cl.Order == "root-first" {
			all = nil
			for i := len(b.blocks) - 1; i >= 0; i-- {
				all = append(all, b.blocks[i])
			}
		}
		os.WriteFile(filepath.Join(work, "in.car"), c05Container(cl.Cont, refcar.EncodeV1([][]byte{root}, false, all)), 0o644)
		reach := map[string][][]byte{"": {root, f1, sub, f2}, "root": {root, f1, sub, f2}, "sub": {sub, f1, f2}, "f1": {f1}}
		start := map[string][]byte{"": root, "root": root, "sub": sub, "f1": f1}
		args := []string{"get-dag", "--version", ver, "in.car"}
		if cl.Start != "" {
			args = append(args, cidStr(start[cl.Start]))
		}
		args = append(args, "out.car")
		if r := drv.Car(work, nil, args...); r.Exit != 0 {
			x.Fail("c05:cli-failed:"+tag, "car get-dag failed (exit %d): %s", r.Exit, clipS(string(r.Stderr), 400))
			return
		}
		wantRoots = [][]byte{start[cl.Start]}
		anyOrder = true
		for _, c := range reach[cl.Start] {
			for _, bl := range b.blocks {
				if bytes.Equal(bl.Cid, c) {
					stored = append(stored, bl)
				}
			}
		}
	default:
		panic("unknown CLI producer " + cl.Cmd)
	}
	out, err := os.ReadFile(filepath.Join(work, "out.car"))
	if err != nil {
		x.Fail("c05:cli-no-output:"+tag, "car %s wrote no archive: %v", cl.Cmd, err)
		return
	}
	if fromOutput {
		// expected roots and sections are those of the output itself (their UnixFS content is
		// C18's subject); layout, index, flags and acceptance are what is checked
		fl, err := refcar.DecodeFile(out, false)
		if err != nil {
			x.Fail("c05:strict-decode:"+tag, "output of car %s is not well-formed: %v (file %x)", cl.Cmd, err, clip(out))
			return
		}
		if (fl.Version == 1) != cl.V1 {
			x.Fail("c05:cli-version:"+tag, "car %s --version %s wrote a version %d archive", cl.Cmd, ver, fl.Version)
			return
		}
		wantRoots = fl.Payload.Header.Roots
		stored = c19Blocks(fl)
	}
	if !fromOutput {
		// beyond the statement (recorded, never a violation): which legal variant the CLI chose
		if fl, err := refcar.DecodeFile(out, false); err == nil && (fl.Version == 1) == cl.V1 {
			got := c19Blocks(fl)
			if rootsFromInput != nil && !sameRoots(fl.Payload.Header.Roots, wantRoots) && !fl.Payload.Header.RootsNil && subsetOfRoots(fl.Payload.Header.Roots, rootsFromInput) {
				x.Outcome("beyond-statement:cli-filter-roots")
				wantRoots = fl.Payload.Header.Roots
			}
			if sameBlocks(got, stored, true) != "" {
				for _, alt := range altStored {
					if sameBlocks(got, alt, true) == "" {
						x.Outcome("beyond-statement:cli-dedup-key")
						stored = alt
						break
					}
				}
			}
			if anyOrder && sameBlocks(got, stored, true) != "" && permutationOf(got, stored) {
				x.Outcome("beyond-statement:cli-traversal-order")
				stored = got
			}
		}
	}
	checkFinalized(x, out, wantRoots, false, stored, drv.Opts{}, cl.V1, tag)
	if !x.Failed() {
		checkAccepted(x, out, wantRoots, stored, false, tag)
	}
	x.State(fmt.Sprintf("%x", out))
	x.Outcome(fmt.Sprintf("%s stored=%d", tag, len(stored)))
	if len(stored) >= 2 {
		x.Nontrivial(fmt.Sprintf("cli|%v|%v|%+v", cs.Roots, cs.Seq, *cl))
	}
}

// subsetOfRoots: every root of got occurs in from, at most as often as there.
func subsetOfRoots(got, from [][]byte) bool {
	left := map[string]int{}
	for _, r := range from {
		left[string(r)]++
	}
	for _, r := range got {
		if left[string(r)] == 0 {
			return false
		}
		left[string(r)]--
	}
	return true
}

// permutationOf: a and b hold the same blocks (CID and data) as multisets.
func permutationOf(a, b []refcar.Block) bool {
	if len(a) != len(b) {
		return false
	}
	left := map[string]int{}
	for _, bl := range b {
		left[string(bl.Cid)+"\x00"+string(bl.Data)]++
	}
	for _, bl := range a {
		k := string(bl.Cid) + "\x00" + string(bl.Data)
		if left[k] == 0 {
			return false
		}
		left[k]--
	}
	return true
}

func genC05CLI(tier string, emit func(any)) {
	for _, tree := range c05TreeOrder {
		for _, v1 := range []bool{false, true} {
			for _, nowrap := range []bool{false, true} {
				emit(C05Case{Writer: "cli", CLI: &C05CLI{Cmd: "create", Tree: tree, V1: v1, NoWrap: nowrap}})
			}
		}
	}
	names := []string{"a", "b", "a'", "i", "s"}
	if tier == "thorough" {
		names = append(names, "e", "a0", "t", "k")
	}
	var seqs [][]string
	kit.Seqs(names, 2, func(s []string) { seqs = append(seqs, s) })
	seqs = append(seqs, []string{"a", "b", "a", "s"}, []string{"L128", "a"}, []string{"a", "L16384", "b"})
	for _, sq := range seqs {
		for _, rs := range []string{"a", "abs", "empty"} {
			if rs != "a" && len(sq) == 2 && tier != "thorough" {
				continue
			}
			conts := []string{"v1", "v2"}
			if rs == "a" {
				conts = []string{"v1", "v2", "v2pad", "v2noidx"}
			}
			for _, cont := range conts {
				for _, sel := range []string{"all", "half", "inverse", "inverse-all", "none"} {
					for _, v1 := range []bool{false, true} {
						emit(C05Case{Roots: rs, Seq: sq, Writer: "cli", CLI: &C05CLI{Cmd: "filter", Cont: cont, Sel: sel, V1: v1}})
					}
				}
				if cont != "v1" && cont != "v2" {
					continue
				}
				for _, pre := range c05PreOrder {
					for _, sel := range []string{"all", "inverse"} {
						emit(C05Case{Roots: rs, Seq: sq, Writer: "cli", CLI: &C05CLI{Cmd: "filter", Cont: cont, Sel: sel, Append: pre}})
					}
				}
			}
		}
	}
	for _, cont := range []string{"v1", "v2"} {
		for _, order := range []string{"", "root-first"} {
			for _, start := range []string{"", "root", "sub", "f1"} {
				for _, v1 := range []bool{false, true} {
					emit(C05Case{Writer: "cli", CLI: &C05CLI{Cmd: "get-dag", Cont: cont, Order: order, Start: start, V1: v1}})
				}
			}
		}
	}
}
