package props

import (
	"bufio"
	"bytes"
	"context"
	"encoding/binary"
	"errors"
	"fmt"
	"io"
	"os"
	"path/filepath"
	"strings"
	"sync"

	"github.com/ipfs/go-cid"
	v1util "github.com/ipld/go-car/util"
	carv2 "github.com/ipld/go-car/v2"
	"github.com/ipld/go-car/v2/blockstore"
	"github.com/ipld/go-car/v2/index"
	"github.com/ipld/go-car/v2/storage"
	"github.com/ipld/go-car/v2/verifbridge"
	"github.com/multiformats/go-multicodec"
	"github.com/multiformats/go-multihash"

	"verif/drv"
	"verif/kit"
	"verif/refcar"
)

// ---------------------------------------------------------------- source capability kinds

// stepRA: io.ReaderAt only.
type stepRA struct {
	r   *bytes.Reader
	env *c09Env
}

func (s *stepRA) ReadAt(p []byte, o int64) (int, error) { s.env.steps++; return s.r.ReadAt(p, o) }

// stepRS: io.Reader + io.Seeker, no ReadAt, no ReadByte.
type stepRS struct {
	r   *bytes.Reader
	env *c09Env
}

func (s *stepRS) Read(p []byte) (int, error)         { s.env.steps++; return s.r.Read(p) }
func (s *stepRS) Seek(o int64, w int) (int64, error) { s.env.steps++; return s.r.Seek(o, w) }

// swRA is an io.ReaderAt whose content is installed after go-car wrapped it: the only way to get
// go-car's own offsetReadSeeker (what Reader.DataReader returns for a CARv1) over arbitrary bytes.
type swRA struct {
	cur *bytes.Reader
	env *c09Env
}

func (s *swRA) ReadAt(p []byte, o int64) (int, error) {
	if s.env != nil {
		s.env.steps++
	}
	return s.cur.ReadAt(p, o)
}

var c09TinyV1 = sync.OnceValue(func() []byte {
	_, rootRaws, _ := kit.Roots("a")
	return refcar.EncodeV1(rootRaws, false, nil)
})

// c09ORS returns go-car's offsetReadSeeker (Read, ReadAt, Seek without SeekEnd, ReadByte) over in.
func c09ORS(in []byte, env *c09Env) carv2.SectionReader {
	sw := &swRA{cur: bytes.NewReader(c09TinyV1())}
	rd, err := carv2.NewReader(sw)
	if err != nil {
		panic("c09 harness: " + err.Error())
	}
	sw.cur, sw.env = bytes.NewReader(in), env
	dr, err := rd.DataReader()
	if err != nil {
		panic("c09 harness: " + err.Error())
	}
	return dr
}

// c09Pipe returns the read end of a pipe that holds in (an *os.File whose Seek and ReadAt fail).
func c09Pipe(in []byte) (*os.File, func()) {
	r, w, err := os.Pipe()
	if err != nil {
		panic(err)
	}
	if len(in) <= 60<<10 {
		w.Write(in) // fits the pipe buffer
		w.Close()
		return r, func() { r.Close() }
	}
	done := make(chan struct{})
	go func() { defer close(done); w.Write(in); w.Close() }()
	return r, func() { r.Close(); <-done }
}

func c09File(env *c09Env, in []byte) (*os.File, func()) {
	p := c09WriteTmp(env, in)
	f, err := os.OpenFile(p, os.O_RDWR, 0)
	if err != nil {
		panic(err)
	}
	return f, func() { f.Close(); os.Remove(p) }
}

// c09Src builds a source of the given kind.
func c09Src(kind string, in []byte, env *c09Env) (io.Reader, func()) {
	nop := func() {}
	switch kind {
	case "rsa":
		return &stepReader{bytes.NewReader(in), env}, nop
	case "stream":
		return &stepStream{bytes.NewReader(in), env}, nop
	case "rsOnly":
		return &stepRS{bytes.NewReader(in), env}, nop
	case "bufio":
		return bufio.NewReaderSize(&stepStream{bytes.NewReader(in), env}, 16), nop
	case "ors":
		return c09ORS(in, env), nop
	case "pipe":
		return c09Pipe(in)
	case "file":
		return c09File(env, in)
	}
	panic(kind)
}

// c09SrcAt builds an io.ReaderAt of the given kind.
func c09SrcAt(kind string, in []byte, env *c09Env) io.ReaderAt {
	switch kind {
	case "raOnly":
		return &stepRA{bytes.NewReader(in), env}
	case "ors":
		return c09ORS(in, env)
	}
	panic(kind)
}

// ---------------------------------------------------------------- index lookups

var c09IdxProbes = sync.OnceValue(func() []cid.Cid {
	var out []cid.Cid
	for _, code := range []uint64{0x00, 0x01, 0x12, 0x13, 39, 40, 41, 80} {
		for _, dl := range []int{0, 1, 2, 31, 32, 33, 64} {
			d := make([]byte, dl)
			for i := range d {
				d[i] = 7
			}
			for _, fill := range []byte{7, 9} {
				for i := range d {
					d[i] = fill
				}
				if c, err := cid.Cast(refcar.CIDv1(refcar.CodecRaw, code, d)); err == nil {
					out = append(out, c)
				}
			}
		}
	}
	return out
})

var errC09Stop = errors.New("c09: stop")

// c09IndexQueries looks up the alphabet blocks, CIDs whose digest length / hash code match what a
// mutated width / code field may say (digest = width-8 bytes), iterates the index and looks up
// every multihash it yields.
func c09IndexQueries(idx index.Index, env *c09Env) error {
	look := func(c cid.Cid) {
		n := 0
		idx.GetAll(c, func(uint64) bool { n++; env.iters++; return n < 1<<16 })
	}
	for _, q := range c09Queries {
		look(kit.B(q).Cid)
	}
	for _, c := range c09IdxProbes() {
		look(c)
	}
	if it, ok := idx.(index.IterableIndex); ok {
		n := 0
		err := it.ForEach(func(mh multihash.Multihash, off uint64) error {
			env.iters++
			if n++; n > 1<<16 {
				return errC09Stop
			}
			if c, err := cid.Cast(append([]byte{0x01, 0x55}, mh...)); err == nil {
				look(c)
			}
			return nil
		})
		if err != nil && err != errC09Stop {
			return err
		}
	}
	return nil
}

// ---------------------------------------------------------------- extended entry points

func c09IsNoSeekEnd(err error, sd *c09Seed) bool {
	// go-car's offsetReadSeeker does not know its end; on a CARv1 SkipNext and WrapV1 ask for it
	_, perr := c09ORS(c09TinyV1(), nil).Seek(0, io.SeekEnd) // what this build answers
	return err != nil && perr != nil && (errors.Is(err, perr) || strings.Contains(err.Error(), perr.Error()))
}

// c09SniffPad returns the data padding an archive that looks like a CARv2 was written with.
func c09SniffPad(in []byte) uint64 {
	if len(in) >= 51 && bytes.HasPrefix(in, refcar.Pragma) {
		if off := binary.LittleEndian.Uint64(in[27:35]); off > 51 && off <= 51+64 {
			return off - 51
		}
	}
	return 0
}

func c09ExtEntries() []c09Entry {
	ctx := context.Background()
	rootA := []cid.Cid{kit.B("a").Cid}
	mkBR := func(mode int, modeName, kind string) c09Entry {
		e := c09Entry{name: "BlockReader." + modeName + "/" + kind, buf: "both", inner: true, hdr: "ret", sect: "ret", sectNoBuf: c09NoBufOfMode(mode), run: func(in []byte, o drv.Opts, env *c09Env) error {
			src, done := c09Src(kind, in, env)
			defer done()
			br, err := carv2.NewBlockReader(src, o.List()...)
			if err != nil {
				return err
			}
			return c09DrainBR(br, mode, env)
		}}
		if kind == "ors" && mode != 0 {
			e.okErr = c09IsNoSeekEnd
		}
		return e
	}
	mkGen := func(kind string) c09Entry {
		return c09Entry{name: "GenerateIndex/" + kind, buf: "header", inner: true, hdr: "ret", run: func(in []byte, o drv.Opts, env *c09Env) error {
			src, done := c09Src(kind, in, env)
			defer done()
			idx, err := carv2.GenerateIndex(src, o.List()...)
			if err != nil {
				return err
			}
			return c09IndexQueries(idx, env)
		}}
	}
	mkRO := func(name string, open func(in []byte, o drv.Opts, env *c09Env) (*blockstore.ReadOnly, error)) c09Entry {
		return c09Entry{name: name, buf: "header", inner: true, hdr: "store", sect: "get", run: func(in []byte, o drv.Opts, env *c09Env) error {
			var bs *blockstore.ReadOnly
			if err := env.op("open", func() (err error) { bs, err = open(in, o, env); return err }); err != nil {
				return err
			}
			return c09QueryRA(env, drv.WrapBS(bs))
		}}
	}
	mkST := func(kind string) c09Entry {
		return c09Entry{name: "OpenReadable/" + kind, buf: "header", inner: true, hdr: "ret", run: func(in []byte, o drv.Opts, env *c09Env) error {
			var st storage.ReadableCar
			if err := env.op("open", func() (err error) { st, err = storage.OpenReadable(c09SrcAt(kind, in, env), o.List()...); return err }); err != nil {
				return err
			}
			return c09QueryRA(env, drv.WrapST(st))
		}}
	}
	mkReader := func(kind string) c09Entry {
		return c09Entry{name: "Reader/" + kind, buf: "both", inner: true, hdr: "ret", sect: "ret", sectNoBuf: "all", run: func(in []byte, o drv.Opts, env *c09Env) error {
			rd, err := carv2.NewReader(c09SrcAt(kind, in, env), o.List()...)
			if err != nil {
				return err
			}
			// inspected first (its error is the one a planted section length shows in), then everything else
			_, ierr := rd.Inspect(true)
			env.op("Inspect(false)", func() error { _, err := rd.Inspect(false); return err })
			rerr := c09ReaderAll(rd, len(in), env)
			if ierr != nil {
				return ierr
			}
			return rerr
		}}
	}
	// resume: the mutant is an existing file that is opened for writing
	rootsDiffer := func(err error, sd *c09Seed) bool {
		return sd.name == "v1-r100" && strings.Contains(err.Error(), "mismatching data header") // resumed with the root list [a]
	}
	bsResume := func(name string, v1 bool) c09Entry {
		return c09Entry{name: name, okErr: rootsDiffer, buf: "header", inner: true, hdr: "ret", v1: v1, v2: !v1, resume: true, run: func(in []byte, o drv.Opts, env *c09Env) error {
			p := c09WriteTmp(env, in)
			defer os.Remove(p)
			o.V1 = v1
			o.DataPad = c09SniffPad(in)
			var rw *blockstore.ReadWrite
			if err := env.op("open", func() (err error) { rw, err = blockstore.OpenReadWrite(p, rootA, o.List()...); return err }); err != nil {
				return err
			}
			defer rw.Discard()
			var first error
			note := func(err error, nf bool) {
				if err != nil && first == nil && !(nf && isNotFound(err)) {
					first = err
				}
			}
			for _, q := range c09Queries {
				b := kit.B(q)
				note(env.op("Has:"+q, func() error { _, err := rw.Has(ctx, b.Cid); return err }), false)
				note(env.op("Get:"+q, func() error { _, err := rw.Get(ctx, b.Cid); return err }), true)
				note(env.op("Size:"+q, func() error { _, err := rw.GetSize(ctx, b.Cid); return err }), true)
			}
			note(env.op("Keys", func() error {
				ch, err := rw.AllKeysChan(ctx)
				if err != nil {
					return err
				}
				for range ch {
					env.iters++
				}
				return nil
			}), false)
			note(env.op("Roots", func() error { _, err := rw.Roots(); return err }), false)
			return first
		}}
	}
	stResume := func(name string, v1 bool) c09Entry {
		return c09Entry{name: name, okErr: rootsDiffer, buf: "header", inner: true, hdr: "ret", v1: v1, v2: !v1, resume: true, run: func(in []byte, o drv.Opts, env *c09Env) error {
			if len(in) == 0 {
				return nil // nothing to resume from
			}
			f, done := c09File(env, in)
			defer done()
			o.V1 = v1
			o.DataPad = c09SniffPad(in)
			var sc *storage.StorageCar
			if err := env.op("open", func() (err error) { sc, err = storage.OpenReadableWritable(f, rootA, o.List()...); return err }); err != nil {
				return err
			}
			var first error
			for _, q := range c09Queries {
				b := kit.B(q)
				if err := env.op("Has:"+q, func() error { _, err := sc.Has(ctx, b.Cid.KeyString()); return err }); err != nil && first == nil {
					first = err
				}
				if err := env.op("Get:"+q, func() error { _, err := sc.Get(ctx, b.Cid.KeyString()); return err }); err != nil && first == nil && !isNotFound(err) {
					first = err
				}
			}
			return first
		}}
	}
	return []c09Entry{
		mkReader("raOnly"), mkReader("ors"),
		{name: "OpenReader(mmap)", buf: "header", inner: true, hdr: "ret", run: func(in []byte, o drv.Opts, env *c09Env) error {
			p := c09WriteTmp(env, in)
			defer os.Remove(p)
			rd, err := carv2.OpenReader(p, o.List()...)
			if err != nil {
				return err
			}
			return c09ReaderAll(rd, len(in), env)
		}},
		mkBR(1, "SkipNext", "rsOnly"), mkBR(1, "SkipNext", "bufio"), mkBR(1, "SkipNext", "ors"), mkBR(1, "SkipNext", "pipe"), mkBR(1, "SkipNext", "file"),
		mkBR(2, "alternate", "rsOnly"), mkBR(2, "alternate", "ors"), mkBR(2, "alternate", "pipe"),
		mkBR(0, "Next", "bufio"), mkBR(0, "Next", "pipe"), mkBR(0, "Next", "ors"),
		mkGen("rsOnly"), mkGen("bufio"), mkGen("ors"), mkGen("pipe"),
		{name: "GenerateIndexFromFile", buf: "header", inner: true, hdr: "ret", run: func(in []byte, o drv.Opts, env *c09Env) error {
			p := c09WriteTmp(env, in)
			defer os.Remove(p)
			_, err := carv2.GenerateIndexFromFile(p, o.List()...)
			return err
		}},
		{name: "LoadIndex(insertion)/ors", buf: "header", inner: true, hdr: "ret", run: func(in []byte, o drv.Opts, env *c09Env) error {
			ii := index.NewInsertionIndex()
			if err := carv2.LoadIndex(ii, c09ORS(in, env), o.List()...); err != nil {
				return err
			}
			return c09IndexQueries(ii, env)
		}},
		{name: "LoadIndex(sorted)/stream", buf: "header", inner: true, hdr: "ret", run: func(in []byte, o drv.Opts, env *c09Env) error {
			idx, err := index.New(multicodec.CarIndexSorted)
			if err != nil {
				return err
			}
			if err := carv2.LoadIndex(idx, &stepStream{bytes.NewReader(in), env}, o.List()...); err != nil {
				return err
			}
			return c09IndexQueries(idx, env)
		}},
		{name: "ReadOrGenerateIndex/rsOnly", buf: "header", hdr: "ret", run: func(in []byte, o drv.Opts, env *c09Env) error {
			idx, err := carv2.ReadOrGenerateIndex(&stepRS{bytes.NewReader(in), env}, o.List()...)
			if err != nil {
				return err
			}
			return c09IndexQueries(idx, env)
		}},
		{name: "ReadOrGenerateIndex/ors", buf: "header", hdr: "ret", run: func(in []byte, o drv.Opts, env *c09Env) error {
			idx, err := carv2.ReadOrGenerateIndex(c09ORS(in, env), o.List()...)
			if err != nil {
				return err
			}
			return c09IndexQueries(idx, env)
		}},
		mkRO("NewReadOnly/raOnly", func(in []byte, o drv.Opts, env *c09Env) (*blockstore.ReadOnly, error) {
			return blockstore.NewReadOnly(&stepRA{bytes.NewReader(in), env}, nil, o.List()...)
		}),
		mkRO("NewReadOnly/ors", func(in []byte, o drv.Opts, env *c09Env) (*blockstore.ReadOnly, error) {
			return blockstore.NewReadOnly(c09ORS(in, env), nil, o.List()...)
		}),
		mkRO("OpenReadOnly(mmap)", func(in []byte, o drv.Opts, env *c09Env) (*blockstore.ReadOnly, error) {
			p := c09WriteTmp(env, in)
			defer os.Remove(p) // the mapping stays valid
			return blockstore.OpenReadOnly(p, o.List()...)
		}),
		mkST("raOnly"), mkST("ors"),
		{name: "WrapV1/rsOnly", buf: "header", hdr: "ret", run: func(in []byte, o drv.Opts, env *c09Env) error {
			return carv2.WrapV1(&stepRS{bytes.NewReader(in), env}, io.Discard, o.List()...)
		}},
		{name: "WrapV1/ors", buf: "header", hdr: "ret", okErr: c09IsNoSeekEnd, run: func(in []byte, o drv.Opts, env *c09Env) error {
			return carv2.WrapV1(c09ORS(in, env), io.Discard, o.List()...)
		}},
		{name: "WrapV1File", buf: "default", run: func(in []byte, o drv.Opts, env *c09Env) error {
			// takes no options: default limits
			p := c09WriteTmp(env, in)
			defer os.Remove(p)
			dst := filepath.Join(env.dir, "c09-wrap.car")
			defer os.Remove(dst)
			return carv2.WrapV1File(p, dst)
		}},
		{name: "ReadVersion/bufio", buf: "header", hdr: "ret", run: func(in []byte, o drv.Opts, env *c09Env) error {
			_, err := carv2.ReadVersion(bufio.NewReaderSize(&stepStream{bytes.NewReader(in), env}, 16), o.List()...)
			return err
		}},
		{name: "ReadVersion/pipe", buf: "header", hdr: "ret", run: func(in []byte, o drv.Opts, env *c09Env) error {
			r, done := c09Pipe(in)
			defer done()
			_, err := carv2.ReadVersion(r, o.List()...)
			return err
		}},
		bsResume("blockstore.OpenReadWrite", false), bsResume("blockstore.OpenReadWrite/v1", true),
		stResume("storage.OpenReadableWritable", false), stResume("storage.OpenReadableWritable/v1", true),
		{name: "internal.CarReader/bufio", v1: true, buf: "both", hdr: "ret", sect: "ret", run: func(in []byte, o drv.Opts, env *c09Env) error {
			mh, ms := o.MaxHeader, o.MaxSect
			if mh == 0 {
				mh = carv2.DefaultMaxAllowedHeaderSize
			}
			if ms == 0 {
				ms = carv2.DefaultMaxAllowedSectionSize
			}
			cr, err := verifbridge.NewCarV1ReaderWithoutDefaults(bufio.NewReaderSize(&stepStream{bytes.NewReader(in), env}, 16), o.ZeroEOF, mh, ms)
			if err != nil {
				return err
			}
			for i := 0; ; i++ {
				if _, err := cr.Next(); err != nil {
					for k := 0; k < 2; k++ {
						env.op(fmt.Sprintf("after-error-%d", k), func() error { _, err := cr.Next(); return err })
					}
					if err == io.EOF {
						return nil
					}
					return err
				}
				if i > 1<<20 {
					return errC09NoTerm
				}
			}
		}},
		{name: "root.ReadCid", buf: "", run: func(in []byte, o drv.Opts, env *c09Env) error {
			// the root module's CID parser takes a buffer: every suffix of the input (first 2 KiB of offsets)
			for k := 0; k < len(in) && k < 2048; k++ {
				env.iters++
				var c cid.Cid
				var n int
				err := env.opQuiet("ReadCid", func() (err error) { c, n, err = v1util.ReadCid(in[k:]); return err })
				if err == nil && (n <= 0 || n > len(in)-k || !c.Defined()) {
					return fmt.Errorf("c09: ReadCid at offset %d returned length %d of %d without an error", k, n, len(in)-k)
				}
			}
			return nil
		}},
		// detached indexes
		{name: "index.ReadFrom/bufio", index: true, run: func(in []byte, o drv.Opts, env *c09Env) error {
			idx, err := index.ReadFrom(bufio.NewReaderSize(&stepStream{bytes.NewReader(in), env}, 16))
			if err != nil {
				return err
			}
			return c09IndexQueries(idx, env)
		}},
		{name: "index.ReadFrom/ors", index: true, run: func(in []byte, o drv.Opts, env *c09Env) error {
			idx, err := index.ReadFrom(c09ORS(in, env))
			if err != nil {
				return err
			}
			return c09IndexQueries(idx, env)
		}},
		{name: "InsertionIndex.Unmarshal", index: true, okErr: func(error, *c09Seed) bool { return true }, run: func(in []byte, o drv.Opts, env *c09Env) error {
			ii := index.NewInsertionIndex()
			if err := ii.Unmarshal(&stepStream{bytes.NewReader(in), env}); err != nil {
				return err
			}
			return c09IndexQueries(ii, env)
		}},
		{name: "NewReadOnly(idx)", index: true, okErr: func(error, *c09Seed) bool { return true }, run: func(in []byte, o drv.Opts, env *c09Env) error {
			// a caller-supplied (mutant) index over a valid archive, multihash and whole-CID matching
			idx, err := index.ReadFrom(bytes.NewReader(in))
			if err != nil {
				return err
			}
			var first error
			for _, whole := range []bool{false, true} {
				o.Whole = whole
				o.StoreID = whole
				bs, err := blockstore.NewReadOnly(&stepReader{bytes.NewReader(c09IdxArchive()), env}, idx, o.List()...)
				if err != nil {
					return err
				}
				sub := &c09Env{dir: env.dir, sample: env.sample}
				if err := c09QueryRA(sub, drv.WrapBS(bs)); err != nil && first == nil {
					first = err
				}
				env.opSum += sub.opSum
				if sub.opMax > env.opMax {
					env.opMax, env.opMaxName = sub.opMax, sub.opMaxName
				}
			}
			return first
		}},
	}
}

// ---------------------------------------------------------------- CBOR-aware header mutations

type c09Head struct {
	pos, hlen int
	major     byte
	arg       uint64
}

// c09CborHeads lists the item heads of one well-formed CBOR item (the seed's header body).
func c09CborHeads(b []byte) []c09Head {
	var out []c09Head
	var item func(p int) int
	item = func(p int) int {
		ib := b[p]
		h := c09Head{pos: p, major: ib >> 5}
		ai := ib & 31
		switch {
		case ai < 24:
			h.arg, h.hlen = uint64(ai), 1
		case ai == 24:
			h.arg, h.hlen = uint64(b[p+1]), 2
		case ai == 25:
			h.arg, h.hlen = uint64(binary.BigEndian.Uint16(b[p+1:])), 3
		case ai == 26:
			h.arg, h.hlen = uint64(binary.BigEndian.Uint32(b[p+1:])), 5
		case ai == 27:
			h.arg, h.hlen = binary.BigEndian.Uint64(b[p+1:]), 9
		default:
			panic("c09: seed header is not definite-length CBOR")
		}
		out = append(out, h)
		p += h.hlen
		switch h.major {
		case 2, 3:
			p += int(h.arg)
		case 4:
			for i := uint64(0); i < h.arg; i++ {
				p = item(p)
			}
		case 5:
			for i := uint64(0); i < 2*h.arg; i++ {
				p = item(p)
			}
		case 6:
			p = item(p)
		}
		return p
	}
	if end := item(0); end != len(b) {
		panic("c09: seed header has trailing bytes")
	}
	return out
}

// c09CborHeads1 decodes a single definite head.
func c09CborHeads1(b []byte) c09Head {
	h := c09Head{major: b[0] >> 5}
	switch ai := b[0] & 31; {
	case ai < 24:
		h.arg = uint64(ai)
	case ai == 24 && len(b) >= 2:
		h.arg = uint64(b[1])
	case ai == 25 && len(b) >= 3:
		h.arg = uint64(binary.BigEndian.Uint16(b[1:]))
	case ai == 26 && len(b) >= 5:
		h.arg = uint64(binary.BigEndian.Uint32(b[1:]))
	case ai == 27 && len(b) >= 9:
		h.arg = binary.BigEndian.Uint64(b[1:])
	}
	return h
}

func c09CborHead(major byte, width int, arg uint64) []byte {
	m := major << 5
	switch width {
	case 0:
		return []byte{m | byte(arg)}
	case 1:
		return []byte{m | 24, byte(arg)}
	case 2:
		return binary.BigEndian.AppendUint16([]byte{m | 25}, uint16(arg))
	case 4:
		return binary.BigEndian.AppendUint32([]byte{m | 26}, uint32(arg))
	case 8:
		return binary.BigEndian.AppendUint64([]byte{m | 27}, arg)
	}
	return []byte{m | 31} // indefinite
}

func c09MinHead(major byte, arg uint64) []byte {
	switch {
	case arg < 24:
		return c09CborHead(major, 0, arg)
	case arg < 1<<8:
		return c09CborHead(major, 1, arg)
	case arg < 1<<16:
		return c09CborHead(major, 2, arg)
	case arg < 1<<32:
		return c09CborHead(major, 4, arg)
	}
	return c09CborHead(major, 8, arg)
}

// c09CidVariants: a CID with its varints re-encoded / its multihash length falsified.
func c09CidVariants(c []byte) [][]byte {
	info, err := refcar.ParseCID(c)
	if err != nil || c[0] != 1 {
		return nil
	}
	_ = info
	// CIDv1: version | codec | mh code | mh len | digest, all 1-byte varints in the alphabet used
	// by the seeds except the codec/code of some blocks; split generically
	var parts [][]byte
	p := 0
	for k := 0; k < 4; k++ {
		_, n, err := refcar.Uvarint(c[p:])
		if err != nil {
			return nil
		}
		parts = append(parts, c[p:p+n])
		p += n
	}
	digest := c[p:]
	join := func(ps [][]byte, d []byte) []byte {
		var o []byte
		for _, x := range ps {
			o = append(o, x...)
		}
		return append(o, d...)
	}
	var out [][]byte
	with := func(k int, repl []byte) {
		ps := append([][]byte{}, parts...)
		ps[k] = repl
		out = append(out, join(ps, digest))
	}
	for k := 0; k < 4; k++ {
		// non-minimal: continuation bit on the last byte plus a zero byte
		nm := append([]byte{}, parts[k]...)
		nm[len(nm)-1] |= 0x80
		with(k, append(nm, 0x00))
		with(k, bytes.Repeat([]byte{0x80}, 10))              // unterminated / over-long
		with(k, append(bytes.Repeat([]byte{0xff}, 8), 0x7f)) // 2^63-1
		with(k, append(bytes.Repeat([]byte{0xff}, 9), 0x01)) // 2^64-1
		with(k, []byte{0x00})
	}
	for _, v := range []byte{0x02, 0x03, 0x12} {
		with(0, []byte{v})
	}
	// multihash length: one more / one less than present, and claims up to and over go-cid's cap
	dl := uint64(len(digest))
	for _, v := range []uint64{dl + 1, dl - 1, 127, 128, 4096, 4 << 20, 32<<20 + 1, 1<<31 - 1, 1 << 32} {
		with(3, refcar.PutUvarint(v))
	}
	out = append(out, []byte{}, []byte{0x01}, c[:len(c)-1], append(append([]byte{}, c...), 0x00))
	return out
}

// c09CborMutants: structure-aware mutations of the header (and of section 0's CID) that keep every
// enclosing length prefix consistent, so that the decoder is reached with them.
func c09CborMutants(s *c09Seed, deep bool, emit func(C09Mut)) {
	depths := []int{1, 100, 4000}
	if deep {
		depths = append(depths, 100000) // only meaningful when the header limit lets it through
	}
	body := s.bytes[s.base+s.hdrVar : s.base+s.hdrLen]
	heads := c09CborHeads(body)
	if len(heads) > 40 {
		// a long root list: the first three roots' items and the last one's
		heads = append(append([]c09Head{}, heads[:12]...), heads[len(heads)-5:]...)
	}
	hx := func(b []byte) string { return fmt.Sprintf("%x", b) }
	bigDone := false // the 8 MiB claim (16 MiB of allocation per parse) only at the first string head
	for _, h := range heads {
		orig := body[h.pos : h.pos+h.hlen]
		put := func(nb []byte, note string) {
			if !bytes.Equal(nb, orig) {
				m := C09Mut{Kind: "hdr", Pos: h.pos, OldLen: h.hlen, Hex: hx(nb), Note: note}
				if mj := nb[0] >> 5; mj == 2 || mj == 3 {
					if hs := c09CborHeads1(nb); hs.arg <= 32<<20 && hs.arg > uint64(len(body)) {
						m.Claim = hs.arg
					}
				}
				emit(m)
			}
		}
		for _, w := range []int{0, 1, 2, 4, 8} {
			if w == 0 && h.arg >= 24 {
				continue
			}
			put(c09CborHead(h.major, w, h.arg), "same value, other width")
		}
		put(c09MinHead(h.major, h.arg+1), "value+1")
		if h.arg > 0 {
			put(c09MinHead(h.major, h.arg-1), "value-1")
		}
		put(c09CborHead(h.major, 0, 0), "value 0")
		put(c09CborHead(h.major, 4, 1<<22), "value 2^22")
		if (h.major == 2 || h.major == 3) && !bigDone {
			bigDone = true
			put(c09CborHead(h.major, 4, 8<<20), "value 8 MiB")
			put(c09CborHead(h.major, 4, 32<<20+1), "value 32 MiB + 1")
		}
		put(c09CborHead(h.major, 4, 1<<32-1), "value 2^32-1")
		put(c09CborHead(h.major, 8, 1<<63-1), "value 2^63-1")
		put(c09CborHead(h.major, 8, 1<<63), "value 2^63")
		put(c09CborHead(h.major, 8, 1<<64-1), "value 2^64-1")
		put(c09CborHead(h.major, -1, 0), "indefinite")
		for m := byte(0); m < 8; m++ {
			if m != h.major {
				nb := append([]byte{}, orig...)
				nb[0] = m<<5 | nb[0]&31
				put(nb, "other major type")
			}
		}
		// the header ends right before / right after this head
		emit(C09Mut{Kind: "hdr", Pos: h.pos, OldLen: len(body) - h.pos, Note: "cut before"})
		emit(C09Mut{Kind: "hdr", Pos: h.pos + h.hlen, OldLen: len(body) - h.pos - h.hlen, Note: "cut after"})
	}
	// nesting in place of the root list
	for _, h := range heads {
		if h.major != 4 {
			continue
		}
		orig := body[h.pos : h.pos+h.hlen]
		for _, n := range depths {
			emit(C09Mut{Kind: "hdr", Pos: h.pos, OldLen: h.hlen, Hex: hx(append(bytes.Repeat([]byte{0x81}, n), orig...)), Note: fmt.Sprintf("%d nested arrays", n)})
			emit(C09Mut{Kind: "hdr", Pos: h.pos, OldLen: h.hlen, Hex: hx(append(bytes.Repeat([]byte{0xa1, 0x61, 'x'}, n), orig...)), Note: fmt.Sprintf("%d nested maps", n)})
			emit(C09Mut{Kind: "hdr", Pos: h.pos, OldLen: h.hlen, Hex: hx(append(bytes.Repeat([]byte{0xd8, 0x2a}, n), orig...)), Note: fmt.Sprintf("%d nested tags", n)})
		}
		break
	}
	// the first root CID (a byte string 00 | cid under tag 42)
	for _, h := range heads {
		if h.major != 2 || h.arg < 2 {
			continue
		}
		content := body[h.pos+h.hlen : h.pos+h.hlen+int(h.arg)]
		old := h.hlen + int(h.arg)
		for _, v := range c09CidVariants(content[1:]) {
			nc := append([]byte{0x00}, v...)
			emit(C09Mut{Kind: "hdr", Pos: h.pos, OldLen: old, Hex: hx(append(c09MinHead(2, uint64(len(nc))), nc...)), Note: "root CID variant"})
		}
		emit(C09Mut{Kind: "hdr", Pos: h.pos, OldLen: old, Hex: hx(append(c09MinHead(2, uint64(len(content)-1)), content[1:]...)), Note: "root CID without the multibase prefix"})
		emit(C09Mut{Kind: "hdr", Pos: h.pos, OldLen: old, Hex: hx(append(c09MinHead(2, uint64(len(content))), append([]byte{0x01}, content[1:]...)...)), Note: "root CID with prefix 01"})
		emit(C09Mut{Kind: "hdr", Pos: h.pos, OldLen: old, Hex: hx(c09MinHead(2, 0)), Note: "empty root CID"})
		break
	}
	// section 0's CID, with the section length following
	if s.sec0 >= 0 {
		sec := s.pl.Sections[0]
		for _, v := range c09CidVariants(sec.Cid) {
			emit(C09Mut{Kind: "sec", Pos: 0, OldLen: len(sec.Cid), Hex: hx(v), Note: "section CID variant"})
		}
		emit(C09Mut{Kind: "sec", Pos: 0, OldLen: s.sec0Len, Note: "empty section body with a 1-byte zero length"})
		emit(C09Mut{Kind: "sec", Pos: len(sec.Cid), OldLen: len(sec.Data), Note: "section of the CID alone"})
	}
}
