package props

import (
	"errors"
	"fmt"
	"path/filepath"
	"strings"

	carv2 "github.com/ipld/go-car/v2"
	"github.com/ipld/go-car/v2/storage"
	"github.com/ipld/go-car/v2/storage/deferred"
	"github.com/multiformats/go-multicodec"

	"verif/drv"
	"verif/kit"
)

// Family "failing-close" of C20: sessions in which Close itself fails (a stream whose k-th Write returns an
// error, or an index codec the finalizer cannot write). The property's last clause is checked on them:
// after Close - whatever it returned - every call reports the store as closed, and no callback fires.
// Nothing is compared with a direct writer here (the output is torn by construction).

var errC20Injected = errors.New("c20: injected write error")

// c20FaultyStream fails its FailAt-th Write (1-based) and every later one.
type c20FaultyStream struct {
	n      int
	failAt int
}

func (s *c20FaultyStream) Write(p []byte) (int, error) {
	s.n++
	if s.n >= s.failAt {
		return 0, errC20Injected
	}
	return len(p), nil
}

var c20FailOps = []string{"put:a", "put:b", "has:a", "cb", "cb1", "close"}

func runC20Fail(cs C20Case, x *kit.Ctx) {
	roots, _, _ := kit.Roots("a")
	var dw *deferred.DeferredCarWriter
	tag := cs.Target
	switch {
	case strings.HasPrefix(cs.Target, "stream-fault"):
		dw = deferred.NewDeferredCarWriterForStream(&c20FaultyStream{failAt: cs.FailAt}, roots, cs.Opts.List()...)
		tag = "stream-fault"
	case cs.Target == "path-badcodec":
		// not an index codec: Finalize, and so Close, fails once something was written
		opts := append(cs.Opts.List(), carv2.UseIndexCodec(multicodec.DagCbor))
		dw = deferred.NewDeferredCarWriterForPath(filepath.Join(x.Dir, "c20-badcodec.car"), roots, opts...)
	default:
		panic("unknown failing-close target " + cs.Target)
	}
	closed, closeFailed := false, false
	fired := 0
	for i, op := range cs.Ops {
		x.Transition(1)
		fail := func(sig, f string, a ...any) {
			x.Fail("c20:"+sig+":"+tag, "after %v: "+f, append([]any{cs.Ops[:i+1]}, a...)...)
		}
		before := fired
		switch {
		case strings.HasPrefix(op, "put:"):
			b := kit.B(strings.TrimPrefix(op, "put:"))
			err := dw.Put(drv.Ctx, b.Cid.KeyString(), b.Data)
			if closed {
				if !errors.Is(err, storage.ErrClosed) {
					fail("put-after-close", "Put after Close (which returned an error: %v) returned %v want ErrClosed", closeFailed, err)
				}
				if fired != before {
					fail("callback-after-close", "a Put callback fired after Close")
				}
			}
		case strings.HasPrefix(op, "has:"):
			b := kit.B(strings.TrimPrefix(op, "has:"))
			_, err := dw.Has(drv.Ctx, b.Cid.KeyString())
			if closed && !errors.Is(err, storage.ErrClosed) {
				fail("has-after-close", "Has after Close (which returned an error: %v) returned %v want ErrClosed", closeFailed, err)
			}
		case op == "cb" || op == "cb1":
			dw.OnPut(func(int) { fired++ }, op == "cb1")
		case op == "close":
			err := dw.Close()
			if closed {
				if !errors.Is(err, storage.ErrClosed) {
					fail("close-after-close", "second Close (the first returned an error: %v) returned %v want ErrClosed", closeFailed, err)
				}
				break
			}
			closed = true
			closeFailed = err != nil
		}
	}
	x.Eval(1)
	x.State(fmt.Sprintf("failclose|%s|%d|%v", cs.Target, cs.FailAt, cs.Ops))
	x.Outcome(fmt.Sprintf("close-failed=%v", closeFailed))
	if closed && closeFailed {
		x.Nontrivial(fmt.Sprintf("failclose|%s|%d|%v", cs.Target, cs.FailAt, cs.Ops))
	}
}

func genC20Fail(tier string, emit func(any)) {
	depth := 5
	if tier == "thorough" {
		depth = 6
	}
	var rec func(cur []string)
	rec = func(cur []string) {
		if len(cur) == depth {
			for k := 1; k <= 4; k++ {
				emit(C20Case{Target: "stream-fault", FailAt: k, Ops: append([]string{}, cur...)})
			}
			emit(C20Case{Target: "path-badcodec", Ops: append([]string{}, cur...)})
			emit(C20Case{Target: "path-badcodec", Opts: drv.Opts{DataPad: 3}, Ops: append([]string{}, cur...)})
			return
		}
		for _, op := range c20FailOps {
			rec(append(cur, op))
		}
	}
	rec(nil)
}
